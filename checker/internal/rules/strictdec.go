package rules

import (
	"go/token"
	"go/types"
	"strings"

	"golang.org/x/tools/go/ssa"

	"verifcheck/internal/core"
)

// R-STRICTDEC (C08: "never reports success for a run whose work-done message did not arrive intact"): the client
// builds one strict decoding mode (unknown fields are errors) and must use it for everything it reads. The package-
// level cbor.Unmarshal / cbor.NewDecoder use the library's default, lenient options: a message in which a byte of a
// field name was corrupted decodes "successfully" with that field left at its zero value.
// Obligations: every CBOR decoding call in the methods of the client type (and their closures):
//   - cbor.Unmarshal(...) / cbor.NewDecoder(...) (package level)                    -> violation
//   - M.Unmarshal(...) / M.NewDecoder(...) with M loaded from a cbor.DecMode field of the client -> strict, if every
//     store to that field is the result of DecOptions{ExtraReturnErrors: <non-zero const>}.DecMode()
//   - (*cbor.Decoder).Decode on a decoder produced by such a NewDecoder (a field stored from it, or a local) -> strict
// A decoding call whose mode cannot be resolved is a violation (undecided = fail).

func isCborPkg(p *types.Package) bool {
	return p != nil && strings.HasSuffix(p.Path(), "fxamacker/cbor/v2")
}

// strictModeField: the field holds a mode built with ExtraReturnErrors set (all stores).
func (c *Ctx) strictModeValue(v ssa.Value, depth int) (bool, string) {
	if depth > 12 {
		return false, "too deep"
	}
	switch x := v.(type) {
	case *ssa.Extract:
		return c.strictModeValue(x.Tuple, depth+1)
	case *ssa.Call:
		name := core.StaticCalleeName(&x.Call)
		if strings.HasSuffix(name, "cbor/v2.DecOptions).DecMode") {
			// receiver: a DecOptions value; find the store of ExtraReturnErrors
			recv := x.Call.Args[0]
			if ld, ok := recv.(*ssa.UnOp); ok {
				recv = ld.X
			}
			al, ok := recv.(*ssa.Alloc)
			if !ok {
				return false, "DecOptions not built from a literal"
			}
			for _, r := range *al.Referrers() {
				fa, ok := r.(*ssa.FieldAddr)
				if !ok {
					continue
				}
				st, _ := derefType(fa.X.Type()).Underlying().(*types.Struct)
				if st == nil || st.Field(fa.Field).Name() != "ExtraReturnErrors" {
					continue
				}
				for _, r2 := range *fa.Referrers() {
					if s, ok := r2.(*ssa.Store); ok {
						if k, isConst := core.ConstInt(s.Val); isConst && k != 0 {
							return true, "DecOptions{ExtraReturnErrors: non-zero}.DecMode()"
						}
					}
				}
			}
			return false, "DecOptions literal does not set ExtraReturnErrors"
		}
		return false, "mode produced by " + name
	case *ssa.UnOp:
		// load of a field: all stores to that field must be strict
		if fa, ok := x.X.(*ssa.FieldAddr); ok {
			st, _ := derefType(fa.X.Type()).Underlying().(*types.Struct)
			if st == nil {
				return false, "unknown field"
			}
			f := st.Field(fa.Field).Origin()
			n := 0
			for _, fn := range c.M.Funcs {
				for _, b := range fn.Blocks {
					for _, in := range b.Instrs {
						s, ok := in.(*ssa.Store)
						if !ok {
							continue
						}
						sfa, ok := s.Addr.(*ssa.FieldAddr)
						if !ok {
							continue
						}
						sst, _ := derefType(sfa.X.Type()).Underlying().(*types.Struct)
						if sst == nil || sst.Field(sfa.Field).Origin() != f {
							continue
						}
						n++
						if ok, why := c.strictSource(s.Val, depth+1); !ok {
							return false, "field " + f.Name() + " stored from a non-strict source at " + c.M.InstrPos(s) + " (" + why + ")"
						}
					}
				}
			}
			if n == 0 {
				return false, "field " + f.Name() + " is never stored"
			}
			return true, "field " + f.Name() + ", every store strict"
		}
		if fv, ok := x.X.(*ssa.FreeVar); ok {
			// a captured variable: its cell is bound where the closure is made
			cf := fv.Parent()
			idx := -1
			for i, v := range cf.FreeVars {
				if v == fv {
					idx = i
				}
			}
			n := 0
			if parent := cf.Parent(); parent != nil && idx >= 0 {
				for _, b := range parent.Blocks {
					for _, in := range b.Instrs {
						if mc, ok := in.(*ssa.MakeClosure); ok && mc.Fn == ssa.Value(cf) && idx < len(mc.Bindings) {
							cell, isAlloc := mc.Bindings[idx].(*ssa.Alloc)
							if !isAlloc {
								return false, "captured variable not bound to a local cell"
							}
							for _, r := range *cell.Referrers() {
								if st, ok := r.(*ssa.Store); ok && st.Addr == ssa.Value(cell) {
									n++
									if ok, why := c.strictSource(st.Val, depth+1); !ok {
										return false, why
									}
								}
							}
						}
					}
				}
			}
			if n == 0 {
				return false, "captured variable " + fv.Name() + " has no visible store"
			}
			return true, "captured variable " + fv.Name() + ", every store strict"
		}
		if al, ok := x.X.(*ssa.Alloc); ok {
			for _, r := range *al.Referrers() {
				if s, ok := r.(*ssa.Store); ok && s.Addr == ssa.Value(al) {
					if ok, why := c.strictSource(s.Val, depth+1); !ok {
						return false, why
					}
				}
			}
			return true, "local, every store strict"
		}
	case *ssa.Parameter:
		// every call site must pass a strict source
		fn := x.Parent()
		idx := -1
		for i, p := range fn.Params {
			if p == x {
				idx = i
			}
		}
		n := 0
		for _, caller := range c.M.Funcs {
			for _, b := range caller.Blocks {
				for _, in := range b.Instrs {
					ci, ok := in.(ssa.CallInstruction)
					if !ok {
						continue
					}
					cc := ci.Common()
					for _, g := range c.M.Callees(cc) {
						if g != fn {
							continue
						}
						ai := idx
						if cc.IsInvoke() {
							ai--
						}
						if ai < 0 || ai >= len(cc.Args) {
							return false, "call site without the argument"
						}
						n++
						if ok, why := c.strictSource(cc.Args[ai], depth+1); !ok {
							return false, "argument at " + c.M.InstrPos(in) + ": " + why
						}
					}
				}
			}
		}
		if n == 0 {
			return false, "parameter " + x.Name() + " has no call site in the module"
		}
		return true, sprintf("parameter %s: all %d call sites pass a strict decoder", x.Name(), n)
	case *ssa.Phi:
		for _, e := range x.Edges {
			if ok, why := c.strictSource(e, depth+1); !ok {
				return false, why
			}
		}
		return true, "all phi edges strict"
	}
	return false, "unresolved mode (" + v.String() + ")"
}

// strictSource: v is a strict DecMode, or a *cbor.Decoder created by the NewDecoder of a strict DecMode.
func (c *Ctx) strictSource(v ssa.Value, depth int) (bool, string) {
	if call, ok := v.(*ssa.Call); ok && call.Call.IsInvoke() && call.Call.Method.Name() == "NewDecoder" && isCborPkg(call.Call.Method.Pkg()) {
		return c.strictModeValue(call.Call.Value, depth+1)
	}
	return c.strictModeValue(v, depth)
}

func (c *Ctx) ruleStrictDec(rule string) {
	ro := c.roles()
	if ro == nil || !ro.ok || ro.clientT == nil {
		c.R.Unresolved(rule, "ATP client type")
		return
	}
	n := 0
	for _, fn := range c.M.SortedFuncs(c.scopePkg("atp")) {
		root := fn
		for root.Parent() != nil {
			root = root.Parent()
		}
		if !c.isMethodOf(root, ro.clientT) {
			continue
		}
		cnt := map[string]int{}
		for _, b := range fn.Blocks {
			for _, in := range b.Instrs {
				call, ok := in.(*ssa.Call)
				if !ok {
					continue
				}
				what, strictOK, why := "", false, ""
				if call.Call.IsInvoke() {
					if !isCborPkg(call.Call.Method.Pkg()) || (call.Call.Method.Name() != "Unmarshal" && call.Call.Method.Name() != "NewDecoder") {
						continue
					}
					what = "DecMode." + call.Call.Method.Name()
					strictOK, why = c.strictModeValue(call.Call.Value, 0)
				} else {
					name := core.StaticCalleeName(&call.Call)
					switch {
					case strings.HasSuffix(name, "cbor/v2.Unmarshal"), strings.HasSuffix(name, "cbor/v2.NewDecoder"):
						what = "package-level cbor." + name[strings.LastIndex(name, ".")+1:]
						strictOK, why = false, "the package-level function decodes with the library's default options: unknown (e.g. corrupted) field names are silently ignored"
					case strings.HasSuffix(name, "cbor/v2.Decoder).Decode"):
						what = "Decoder.Decode"
						strictOK, why = c.strictSource(call.Call.Args[0], 0)
					default:
						continue
					}
				}
				n++
				cnt[what]++
				k := key(rule, c.M.Key(fn), sprintf("%s #%d", what, cnt[what]))
				if strictOK {
					c.R.Ok(rule, k, c.M.InstrPos(call), "CBOR decoding call in the client", "strict mode: "+why)
				} else {
					c.R.Bad(rule, k, c.M.InstrPos(call), "the client decodes a wire message without its strict decoding mode",
						why+"; a work-done, signal or error message with a corrupted field name is accepted with that field at its zero value, so Execute can report success for a message that did not arrive intact")
				}
			}
		}
	}
	c.R.Note("%s: %d CBOR decoding calls in methods of the client", rule, n)
}

// R-ONEDECODER (C05 "transport chunkings", C06 "a result that has been delivered"): a CBOR stream decoder reads ahead.
// Two decoders on the same byte stream lose whatever the first one had buffered when the second takes over, and two
// used concurrently tear each other's messages. Every NewDecoder call in the methods of the client is an obligation:
// it must be the one in the constructor (the function that allocates the client); any other creates a second reader
// on the stream.
func (c *Ctx) ruleOneDecoder(rule string) {
	ro := c.roles()
	if ro == nil || !ro.ok || ro.clientT == nil {
		c.R.Unresolved(rule, "ATP client type")
		return
	}
	n := 0
	for _, fn := range c.M.SortedFuncs(c.scopePkg("atp")) {
		root := fn
		for root.Parent() != nil {
			root = root.Parent()
		}
		isMethod := c.isMethodOf(root, ro.clientT)
		allocates := false
		for _, b := range root.Blocks {
			for _, in := range b.Instrs {
				if al, ok := in.(*ssa.Alloc); ok && al.Heap {
					if n := structOf(al.Type()); n != nil && n == ro.clientT {
						allocates = true
					}
				}
			}
		}
		if !isMethod && !allocates {
			continue
		}
		cnt := 0
		for _, b := range fn.Blocks {
			for _, in := range b.Instrs {
				call, ok := in.(*ssa.Call)
				if !ok {
					continue
				}
				isNew := false
				if call.Call.IsInvoke() {
					isNew = call.Call.Method.Name() == "NewDecoder" && isCborPkg(call.Call.Method.Pkg())
				} else {
					isNew = strings.HasSuffix(core.StaticCalleeName(&call.Call), "cbor/v2.NewDecoder")
				}
				if !isNew {
					continue
				}
				n++
				cnt++
				k := key(rule, c.M.Key(fn), sprintf("NewDecoder #%d", cnt))
				if allocates && !isMethod {
					c.R.Ok(rule, k, c.M.InstrPos(call), "stream decoder creation", "in the constructor: the client's one decoder")
				} else {
					c.R.Bad(rule, k, c.M.InstrPos(call), "a second stream decoder is created on the client's channel",
						"stream decoders read ahead: bytes the previous decoder buffered past the last message are lost when this one takes over (the next message is read from its middle: 'cannot unmarshal ...' or a hang), and concurrent use tears messages")
				}
			}
		}
	}
	if n == 0 {
		c.R.Unresolved(rule, "NewDecoder call in the client constructor")
	}
}

// R-DECODERX (C05 "never delivered to a different run ID, or corrupted"): the client's one stream decoder is shared by
// everything that reads from the connection. Two goroutines decoding at the same time tear each other's messages (and
// race inside the decoder). Every Decode on the client's decoder in the client's methods is an obligation; discharged
// when it
//   - sits in the read loop's call tree (one goroutine at a time: the running flag, R-ATOMIC), or
//   - is executed with a mutex of the client held (the legacy protocol's take-turns lock, inherited from call sites), or
//   - is the handshake (the function that stores the protocol version; premise: ReadSchema precedes every Execute).
func (c *Ctx) ruleDecoderExclusive(rule string) {
	ro := c.roles()
	if ro == nil || !ro.ok || ro.clientT == nil || ro.readLoop == nil {
		c.R.Unresolved(rule, "ATP client type / read loop")
		return
	}
	inLoop := c.M.Reachable([]*ssa.Function{ro.readLoop}, nil)
	storesVersion := func(fn *ssa.Function) bool {
		for _, b := range fn.Blocks {
			for _, in := range b.Instrs {
				if st, ok := in.(*ssa.Store); ok {
					if fa, ok := st.Addr.(*ssa.FieldAddr); ok && structOf(fa.X.Type()) == ro.clientT {
						if bt, ok := fieldType(ro.clientT, fieldName(fa.X.Type(), fa.Field)).Underlying().(*types.Basic); ok && bt.Info()&types.IsInteger != 0 {
							return true
						}
					}
				}
			}
		}
		return false
	}
	n := 0
	for _, fn := range c.M.SortedFuncs(c.scopePkg("atp")) {
		if !c.methodOrClosureOf(fn, ro.clientT) {
			continue
		}
		cnt := 0
		for _, b := range fn.Blocks {
			for _, in := range b.Instrs {
				call, ok := in.(*ssa.Call)
				if !ok || !strings.HasSuffix(core.StaticCalleeName(&call.Call), "cbor/v2.Decoder).Decode") {
					continue
				}
				n++
				cnt++
				k := key(rule, c.M.Key(fn), sprintf("Decode #%d on the connection's decoder is exclusive", cnt))
				pos := c.M.InstrPos(call)
				var held []string
				for _, l := range c.lockedAt(fn, call) {
					for _, mname := range allMutexFields(ro.clientT) {
						if strings.HasSuffix(l, "."+mname) {
							held = append(held, mname)
						}
					}
				}
				switch {
				case inLoop[fn]:
					c.R.Ok(rule, k, pos, "read from the shared stream decoder", "in the read loop's call tree: one goroutine at a time (running flag)")
				case len(held) > 0:
					c.R.Ok(rule, k, pos, "read from the shared stream decoder", "executed with "+strings.Join(held, ", ")+" held")
					c.sameTurnClause(rule, ro, fn, call, held)
				case storesVersion(fn):
					c.R.Ok(rule, k, pos, "read from the shared stream decoder", "the handshake; premise: ReadSchema precedes every Execute")
				default:
					c.R.Bad(rule, k, pos, "the connection's decoder is read without exclusion",
						"concurrent Execute calls that get here decode from the same stream decoder at the same time: each may consume (part of) the other's reply - a result delivered to the wrong caller, torn messages, a data race inside the decoder")
				}
			}
		}
	}
	if n == 0 {
		c.R.Unresolved(rule, "Decode calls of the ATP client")
	}
}

// sameTurnClause: a reply that is read directly (no run IDs: it is matched to its request by position) must be read in
// the turn in which the request was written - the write that precedes the read in the same call chain holds the same
// mutex. Taking the turn for the read only lets a second caller write first and read second: both get the other's reply.
func (c *Ctx) sameTurnClause(rule string, ro *atpRoles, decFn *ssa.Function, dec *ssa.Call, held []string) {
	encodes := func(f *ssa.Function) bool {
		for g := range c.reachSync(f) {
			for _, bb := range g.Blocks {
				for _, in := range bb.Instrs {
					if call, ok := in.(*ssa.Call); ok && strings.HasSuffix(core.StaticCalleeName(&call.Call), "cbor/v2.Encoder).Encode") {
						return true
					}
				}
			}
		}
		return false
	}
	n := 0
	for _, fn := range c.M.SortedFuncs(c.scopePkg("atp")) {
		if !c.methodOrClosureOf(fn, ro.clientT) {
			continue
		}
		var writes, reads []*ssa.Call
		for _, b := range fn.Blocks {
			for _, in := range b.Instrs {
				call, ok := in.(*ssa.Call)
				if !ok {
					continue
				}
				if call == dec {
					reads = append(reads, call)
					continue
				}
				for _, callee := range c.M.Callees(&call.Call) {
					if c.methodOrClosureOf(callee, ro.clientT) && encodes(callee) {
						writes = append(writes, call)
					}
					if c.reachSync(callee)[decFn] {
						reads = append(reads, call)
					}
				}
			}
		}
		for _, w := range writes {
			for _, r := range reads {
				if w == r || !instrCanFollow(w, r) {
					continue
				}
				n++
				k := key(rule, c.M.Key(fn), sprintf("request #%d is written in the turn in which its reply is read", n))
				heldAtWrite := map[string]bool{}
				for _, l := range c.lockedAt(fn, w) {
					heldAtWrite[l[strings.LastIndex(l, ".")+1:]] = true
				}
				same := false
				for _, m := range held {
					if heldAtWrite[m] {
						same = true
					}
				}
				if same {
					c.R.Ok(rule, k, c.M.InstrPos(w), "write of a request whose reply is matched by position", "the write and the read that follows it are made under the same mutex ("+strings.Join(held, ", ")+")")
				} else {
					c.R.Bad(rule, k, c.M.InstrPos(w), "a request is written outside the turn in which its reply is read",
						"the reply read at "+c.M.InstrPos(dec)+" is matched to its request by position only; the request is written at "+c.M.InstrPos(w)+" without "+strings.Join(held, " / ")+": two concurrent callers can write in one order and read in the other, and each returns the other's output as its own success")
				}
			}
		}
	}
	if n == 0 {
		c.R.Bad(rule, key(rule, c.M.Key(decFn), "the request of a directly read reply is written in the same call chain"), c.M.InstrPos(dec),
			"no write of a request precedes the direct read of a reply in any client function", "the pairing of request and reply cannot be established")
	}
}

// instrCanFollow: b can execute after a within one invocation of their function.
func instrCanFollow(a, b ssa.Instruction) bool {
	if a.Block() == b.Block() {
		for _, in := range a.Block().Instrs {
			if in == a {
				return true
			}
			if in == b {
				break
			}
		}
	}
	seen := map[*ssa.BasicBlock]bool{}
	var walk func(x *ssa.BasicBlock) bool
	walk = func(x *ssa.BasicBlock) bool {
		for _, sc := range x.Succs {
			if sc == b.Block() {
				return true
			}
			if !seen[sc] {
				seen[sc] = true
				if walk(sc) {
					return true
				}
			}
		}
		return false
	}
	return walk(a.Block())
}

// R-WORKDONE (C08 "never reports success for a run whose work-done message did not arrive intact"): CBOR decoding does
// not fail when a map is shorter than the struct (the missing fields stay zero) or when a field is null. Every step
// output has an ID, so a decoded work-done message whose output ID is empty is incomplete or garbled. Obligation:
// wherever an ExecutionResult without error is built in a function that holds a decoded WorkDoneMessage, the
// message's output ID was found non-empty on every path.
func (c *Ctx) ruleWorkDone(rule string) {
	c.ruleWorkDoneStep(rule)
	isMsg := func(t types.Type) bool {
		if p, ok := t.Underlying().(*types.Pointer); ok {
			t = p.Elem()
		}
		n, ok := t.(*types.Named)
		return ok && n.Obj().Name() == "WorkDoneMessage"
	}
	n := 0
	for _, fn := range c.M.SortedFuncs(c.scopePkg("atp")) {
		has := false
		for _, p := range fn.Params {
			if isMsg(p.Type()) {
				has = true
			}
		}
		if !has {
			continue
		}
		cnt := 0
		for _, b := range fn.Blocks {
			for _, in := range b.Instrs {
				st, ok := in.(*ssa.Store)
				if !ok || !core.IsNilConst(st.Val) {
					continue
				}
				fa, ok := st.Addr.(*ssa.FieldAddr)
				if !ok || fieldName(fa.X.Type(), fa.Field) != "Error" {
					continue
				}
				if sn := structOf(fa.X.Type()); sn == nil || sn.Obj().Name() != "ExecutionResult" {
					continue
				}
				n++
				cnt++
				k := key(rule, c.M.Key(fn), sprintf("success result #%d only for a message with an output ID", cnt))
				est := func(cond core.Cond) bool {
					bo, ok := cond.V.(*ssa.BinOp)
					if !ok || (bo.Op != token.EQL && bo.Op != token.NEQ) {
						return false
					}
					var other ssa.Value
					if s, isC := core.ConstString(bo.Y); isC && s == "" {
						other = bo.X
					} else if s, isC := core.ConstString(bo.X); isC && s == "" {
						other = bo.Y
					} else {
						return false
					}
					ld, ok := other.(*ssa.UnOp)
					if !ok {
						return false
					}
					ofa, ok := ld.X.(*ssa.FieldAddr)
					if !ok || !isMsg(ofa.X.Type()) || fieldName(ofa.X.Type(), ofa.Field) != "OutputID" {
						return false
					}
					return (bo.Op == token.NEQ) == cond.True
				}
				// the sibling: the output data. Every output is an object; a map cut short behind the output ID decodes
				// into a message with an output ID and no data.
				k2 := key(rule, c.M.Key(fn), sprintf("success result #%d only for a message with output data", cnt))
				est2 := func(cond core.Cond) bool {
					v, neq, isNil := core.NilCmp(cond.V)
					if !isNil || neq != cond.True {
						return false
					}
					ld, ok := core.Unwrap(v).(*ssa.UnOp)
					if !ok {
						return false
					}
					ofa, ok := ld.X.(*ssa.FieldAddr)
					return ok && isMsg(ofa.X.Type()) && fieldName(ofa.X.Type(), ofa.Field) == "OutputData"
				}
				// and it is an object: on the wire a map. A map head that turned into an array head still decodes.
				k3 := key(rule, c.M.Key(fn), sprintf("success result #%d only for a message whose output data is a map", cnt))
				est3 := func(cond core.Cond) bool {
					bin, ok := cond.V.(*ssa.BinOp)
					if !ok || (bin.Op != token.EQL && bin.Op != token.NEQ) {
						return false
					}
					for _, pr := range [][2]ssa.Value{{bin.X, bin.Y}, {bin.Y, bin.X}} {
						kc, isCall := pr[0].(*ssa.Call)
						if !isCall || reflectValueMethod(kc) != "Kind" {
							continue
						}
						// reflect.Map == 21
						if kk, isConst := core.ConstInt(pr[1]); !isConst || kk != 21 || (bin.Op == token.EQL) != cond.True {
							continue
						}
						if vo := valueOfArg(kc.Call.Args[0]); vo != nil {
							if ld, ok := core.Unwrap(vo).(*ssa.UnOp); ok {
								if ofa, ok := ld.X.(*ssa.FieldAddr); ok && isMsg(ofa.X.Type()) && fieldName(ofa.X.Type(), ofa.Field) == "OutputData" {
									return true
								}
							}
						}
					}
					return false
				}
				if core.MustHold(fn, est3)[b] {
					c.R.Ok(rule, k3, c.M.InstrPos(st), "success result built from a work-done message", "on every path reflect.ValueOf(output data).Kind() was found to be Map")
				} else {
					c.R.Bad(rule, k3, c.M.InstrPos(st), "a work-done message whose output data is not an object is turned into a success result",
						"one changed byte in the head of the output data (map -> array) leaves a complete, decodable message: Execute reports success with a list where every output is an object")
				}
				if core.MustHold(fn, est2)[b] {
					c.R.Ok(rule, k2, c.M.InstrPos(st), "success result built from a work-done message", "on every path the message's output data was found non-nil")
				} else {
					c.R.Bad(rule, k2, c.M.InstrPos(st), "a work-done message without output data is turned into a success result",
						"a message whose map header was shortened behind the output ID (one changed bit) decodes without error: Execute reports success with the right output ID and nil data for a run whose result never arrived intact")
				}
				if core.MustHold(fn, est)[b] {
					c.R.Ok(rule, k, c.M.InstrPos(st), "success result built from a work-done message", "on every path the message's output ID was found non-empty")
				} else {
					c.R.Bad(rule, k, c.M.InstrPos(st), "a work-done message is turned into a success result whatever it contains",
						"a message whose map header was shortened, or whose payload is null, decodes without error into zero values: Execute reports success with an empty output ID and no data for a run whose result never arrived intact")
				}
			}
		}
	}
	if n == 0 {
		c.R.Unresolved(rule, "construction of a success result from a work-done message")
	}
}

// R-CODEC (C05 "each Execute returns what calling the step in-process would produce", C01 "after a CBOR encode/decode
// exactly as ATP transports it"): the transport must not be narrower than the schemas. The CBOR decoder's defaults -
// 32 nesting levels, 131072 array elements / map pairs, valid UTF-8 only - refuse values every schema accepts and the
// encoder writes, and a refused message ends the whole session; the encoder's default sends a nil slice or map as
// null, which no list or map schema accepts. Obligations, over package atp:
//   - no package-level cbor.Unmarshal / NewDecoder / Marshal / NewEncoder (they are the default modes);
//   - every DecOptions value a DecMode is built from sets MaxNestedLevels, MaxArrayElements, MaxMapPairs, UTF8 and
//     DupMapKey (the default keeps the last of two entries whose keys encode alike: the transport would repair a map the
//     schemas refuse as having duplicate keys after conversion);
//   - every EncOptions value an EncMode is built from sets NilContainers.
func (c *Ctx) ruleCodec(rule string) {
	n := 0
	for _, fn := range c.M.SortedFuncs(c.scopePkg("atp")) {
		cnt := map[string]int{}
		for _, b := range fn.Blocks {
			for _, in := range b.Instrs {
				call, ok := in.(*ssa.Call)
				if !ok {
					continue
				}
				name := core.StaticCalleeName(&call.Call)
				short := name[strings.LastIndex(name, "/")+1:]
				switch {
				case strings.HasSuffix(name, "cbor/v2.Unmarshal"), strings.HasSuffix(name, "cbor/v2.NewDecoder"), strings.HasSuffix(name, "cbor/v2.Marshal"), strings.HasSuffix(name, "cbor/v2.NewEncoder"):
					n++
					cnt[short]++
					k := key(rule, c.M.Key(fn), sprintf("%s #%d", short, cnt[short]))
					c.R.Bad(rule, k, c.M.InstrPos(call), "the transport uses a default CBOR mode",
						"the package-level functions decode with 32 nesting levels, 131072 elements and valid UTF-8 only, and encode nil slices / maps as null: a value the step's schema accepts is refused (or changed) on the way, and a refused message is fatal for the whole session")
				case strings.HasSuffix(name, "cbor/v2.DecOptions).DecMode"), strings.HasSuffix(name, "cbor/v2.EncOptions).EncMode"):
					n++
					cnt[short]++
					k := key(rule, c.M.Key(fn), sprintf("%s #%d is built from options as wide as the schemas", short, cnt[short]))
					set := map[string]bool{}
					codecFieldsSet(call.Call.Args[0], set, 0)
					want := []string{"MaxNestedLevels", "MaxArrayElements", "MaxMapPairs", "UTF8", "DupMapKey"}
					if strings.Contains(name, "EncOptions") {
						want = []string{"NilContainers"}
					}
					var missing []string
					for _, w := range want {
						if !set[w] {
							missing = append(missing, w)
						}
					}
					if len(missing) == 0 {
						c.R.Ok(rule, k, c.M.InstrPos(call), "CBOR mode of the transport", "the options set "+strings.Join(want, ", ")+" to non-default constants")
					} else {
						c.R.Bad(rule, k, c.M.InstrPos(call), "a CBOR mode of the transport keeps the library default for "+strings.Join(missing, ", "),
							"values the schemas accept (deep nesting, more than 131072 elements, strings that are not valid UTF-8, nil slices and maps) are refused or changed on the way; a refused message ends the session for every running step")
					}
				}
			}
		}
	}
	if n == 0 {
		c.R.Unresolved(rule, "CBOR mode construction in package atp")
	}
}

// codecFieldsSet collects the fields of an options struct value that are set to a non-zero constant.
func codecFieldsSet(v ssa.Value, set map[string]bool, depth int) {
	if depth > 5 || v == nil {
		return
	}
	switch x := v.(type) {
	case *ssa.UnOp:
		al, ok := x.X.(*ssa.Alloc)
		if !ok {
			return
		}
		if refs := al.Referrers(); refs != nil {
			for _, r := range *refs {
				switch y := r.(type) {
				case *ssa.Store:
					if y.Addr == ssa.Value(al) {
						codecFieldsSet(y.Val, set, depth+1)
					}
				case *ssa.FieldAddr:
					if frefs := y.Referrers(); frefs != nil {
						for _, fr := range *frefs {
							if st, ok := fr.(*ssa.Store); ok && st.Addr == ssa.Value(y) {
								if cst, ok := st.Val.(*ssa.Const); ok && cst.Value != nil && cst.Value.String() != "0" {
									set[fieldName(y.X.Type(), y.Field)] = true
								}
							}
						}
					}
				}
			}
		}
	case *ssa.Call:
		if callee := x.Call.StaticCallee(); callee != nil && len(callee.Blocks) > 0 {
			for _, r := range core.ReturnsOf(callee) {
				if len(r.Results) > 0 {
					codecFieldsSet(core.RetVal(r, 0), set, depth+1)
				}
			}
		}
	}
}

// R-WORKDONE, step clause (C08 "never reports success for a run whose work-done message did not arrive intact"): a run ID
// that was damaged into the ID of another run that is waiting looks like that run's result. The message names the step
// it is the result of. Obligation: every call that hands a decoded WorkDoneMessage to the function that builds the
// success result is made where, on every path, the message's StepID was found equal to a step ID the client holds (or
// empty: a peer that does not say) - directly, or as the false outcome of a bool computed from such a comparison.
func (c *Ctx) ruleWorkDoneStep(rule string) {
	isMsg := func(t types.Type) bool {
		if p, ok := t.Underlying().(*types.Pointer); ok {
			t = p.Elem()
		}
		n, ok := t.(*types.Named)
		return ok && n.Obj().Name() == "WorkDoneMessage"
	}
	// the functions that build a success result from a message parameter
	builders := map[*ssa.Function]bool{}
	for _, fn := range c.M.SortedFuncs(c.scopePkg("atp")) {
		has := false
		for _, p := range fn.Params {
			if isMsg(p.Type()) {
				has = true
			}
		}
		if !has {
			continue
		}
		for _, b := range fn.Blocks {
			for _, in := range b.Instrs {
				st, ok := in.(*ssa.Store)
				if !ok || !core.IsNilConst(st.Val) {
					continue
				}
				if fa, ok := st.Addr.(*ssa.FieldAddr); ok && fieldName(fa.X.Type(), fa.Field) == "Error" {
					if sn := structOf(fa.X.Type()); sn != nil && sn.Obj().Name() == "ExecutionResult" {
						builders[fn] = true
					}
				}
			}
		}
	}
	// via: the call whose outcome implies the condition under examination (nil if the condition was tested here): a
	// parameter of the callee stands for the argument of that call
	var via *ssa.Call
	stepIDOf := func(v ssa.Value) bool {
		if prm, isParam := v.(*ssa.Parameter); isParam && via != nil {
			if callee := core.StaticBody(&via.Call); callee != nil && prm.Parent() == callee {
				for i, q := range callee.Params {
					if q == prm && i < len(via.Call.Args) {
						v = via.Call.Args[i]
					}
				}
			}
		}
		if f, isField := v.(*ssa.Field); isField {
			// a field of a message that was passed by value
			return isMsg(f.X.Type()) && fieldName(f.X.Type(), f.Field) == "StepID"
		}
		ld, ok := v.(*ssa.UnOp)
		if !ok {
			return false
		}
		fa, ok := ld.X.(*ssa.FieldAddr)
		return ok && isMsg(fa.X.Type()) && fieldName(fa.X.Type(), fa.Field) == "StepID"
	}
	var mismatch func(v ssa.Value, d int) bool // v is true exactly where the StepID differs from a step ID (possibly among other conjuncts)
	mismatch = func(v ssa.Value, d int) bool {
		if d > 4 {
			return false
		}
		switch x := v.(type) {
		case *ssa.BinOp:
			if x.Op != token.NEQ {
				return false
			}
			for _, pr := range [][2]ssa.Value{{x.X, x.Y}, {x.Y, x.X}} {
				if stepIDOf(pr[0]) {
					if _, isConst := pr[1].(*ssa.Const); !isConst {
						return true
					}
				}
			}
		case *ssa.Phi:
			for _, e := range x.Edges {
				if mismatch(e, d+1) {
					return true
				}
			}
		}
		return false
	}
	est := func(cond core.Cond) bool {
		via = cond.Via
		defer func() { via = nil }()
		if bin, ok := cond.V.(*ssa.BinOp); ok && (bin.Op == token.EQL || bin.Op == token.NEQ) {
			for _, pr := range [][2]ssa.Value{{bin.X, bin.Y}, {bin.Y, bin.X}} {
				if stepIDOf(pr[0]) && (bin.Op == token.EQL) == cond.True {
					return true // equal to a step ID, or to the empty string
				}
			}
			return false
		}
		if _, isPhi := cond.V.(*ssa.Phi); isPhi && !cond.True {
			return mismatch(cond.V, 0)
		}
		return false
	}
	n := 0
	for _, fn := range c.M.SortedFuncs(c.scopePkg("atp")) {
		cnt := 0
		var hold map[*ssa.BasicBlock]bool
		for _, b := range fn.Blocks {
			for _, in := range b.Instrs {
				call, ok := in.(*ssa.Call)
				if !ok {
					continue
				}
				sc := call.Call.StaticCallee()
				if sc == nil || !builders[sc] || builders[fn] {
					continue
				}
				n++
				cnt++
				if hold == nil {
					hold = core.MustHold(fn, est)
				}
				k := key(rule, c.M.Key(fn), sprintf("result #%d is built only from a message that names the run's step", cnt))
				if hold[b] {
					c.R.Ok(rule, k, c.M.InstrPos(call), "work-done message handed on to become a result", "on every path the message's step ID was found equal to the step the run was started for (or empty)")
				} else {
					c.R.Bad(rule, k, c.M.InstrPos(call), "a work-done message becomes a run's result without its step ID having been compared with the run's step",
						"one changed bit in the run ID of a work-done message makes it the result of another run that is waiting: that run is reported a success with the other step's output, although the message says which step it is the result of")
				}
			}
		}
	}
	if n == 0 {
		c.R.Unresolved(rule, "calls that hand a decoded work-done message to the function that builds the result")
	}
}
