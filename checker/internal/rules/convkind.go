package rules

import (
	"go/constant"
	"go/token"
	"go/types"
	"sort"
	"strings"

	"golang.org/x/tools/go/ssa"

	"verifcheck/internal/core"
)

// R-CONVKIND: Validate and Serialize (and their typed variants) accept named scalar types and the other integer /
// float widths by converting the value with reflect.Value.Convert. CanConvert alone also admits conversions that
// REINTERPRET the value - float -> integer truncates (3.7 becomes 3), integer -> string yields the rune with that code
// (65 becomes "A") - so the value that is checked and emitted is not the value that was passed: Validate / Serialize
// accept what Unserialize rejects. Every Convert whose target is a statically known scalar type (reflect.TypeOf of a
// zero value of a basic type or of a type parameter with basic terms) in the code reachable from Validate / Serialize
// is an obligation. The source kinds admitted on the paths to the Convert must agree with every possible target kind:
//
//	target integer kind: source integer kind (any width, signed or unsigned)
//	target float kind:   source integer or float kind
//	otherwise:           source kind == target kind
//
// Discharge: on every path to the Convert, a branch condition establishes it -
//
//	(A) comparisons of Kind() of the converted Value with constants, all of which are admitted kinds, or
//	(B) a true result of a predicate p(src.Kind(), target.Kind()) of the repo, where p is evaluated here for every pair
//	    of kinds (finite domain, the predicate only compares its arguments with constants): p(from, to) implies the table.
func (c *Ctx) ruleConvKind(rule string) {
	entries := c.entryData("Validate", "Serialize", "ValidateType", "SerializeType")
	scope := c.M.Reachable(entries, nil)
	kinds := reflectKinds(c.M.Prog)
	if len(kinds.byName) < 20 {
		c.R.Unresolved(rule, "reflect.Kind constants")
		return
	}
	n := 0
	for _, fn := range c.M.SortedFuncs(scope) {
		cnt := 0
		for _, b := range fn.Blocks {
			for _, in := range b.Instrs {
				call, ok := in.(*ssa.Call)
				if !ok || reflectValueMethod(call) != "Convert" || len(call.Call.Args) != 2 {
					continue
				}
				tt := core.ReflectTypeOfStatic(call.Call.Args[1])
				if tt == nil {
					continue
				}
				targets := scalarKinds(tt, kinds)
				if len(targets) == 0 {
					continue
				}
				n++
				cnt++
				src := call.Call.Args[0]
				path := c.reflPath(src, 0)
				k := key(rule, c.M.Key(fn), sprintf("Convert #%d of %s to %s keeps the value", cnt, c.stable(fn, path), typeStr(tt)))
				admitted := func(from int64) bool {
					for _, to := range targets {
						if !kindAgrees(from, to, kinds) {
							return false
						}
					}
					return true
				}
				// (A)
				fa := kindFact{accept: func(kv int64, eq bool) bool { return eq && admitted(kv) }}
				if core.MustHold(fn, c.kindEst(path, fa, 0))[b] {
					c.R.Ok(rule, k, c.M.InstrPos(call), "value conversion in Validate / Serialize", "on every path Kind() of the value was found equal to a kind that agrees with the target")
					continue
				}
				// (B)
				why := ""
				est := func(cond core.Cond) bool {
					pc, ok := cond.V.(*ssa.Call)
					if !ok || !cond.True || len(pc.Call.Args) != 2 {
						return false
					}
					g, ok := pc.Call.Value.(*ssa.Function)
					if !ok || len(g.Blocks) == 0 {
						return false
					}
					a0, ok0 := pc.Call.Args[0].(*ssa.Call)
					a1, ok1 := pc.Call.Args[1].(*ssa.Call)
					if !ok0 || !ok1 || reflectValueMethod(a0) != "Kind" || c.reflPath(a0.Call.Args[0], 0) != path {
						return false
					}
					if !a1.Call.IsInvoke() || a1.Call.Method.Name() != "Kind" || a1.Call.Value != call.Call.Args[1] {
						return false
					}
					for from := range kinds.byValue {
						for _, to := range targets {
							res, ok := evalKindPredicate(g, []int64{from, to}, 0)
							if !ok {
								why = "the predicate " + c.M.Key(g) + " cannot be evaluated over the kinds (it does more than compare its arguments with constants)"
								return false
							}
							if res && !kindAgrees(from, to, kinds) {
								why = sprintf("%s(%s, %s) is true", c.M.Key(g), kinds.byValue[from], kinds.byValue[to])
								return false
							}
						}
					}
					return true
				}
				if core.MustHold(fn, est)[b] {
					c.R.Ok(rule, k, c.M.InstrPos(call), "value conversion in Validate / Serialize", "on every path a kind predicate of the repo held for (Kind of the value, Kind of the target); evaluated for all pairs of kinds it implies the agreement table")
					continue
				}
				if why == "" {
					why = "no condition on the paths to the conversion restricts the kind of the value"
				}
				c.R.Bad(rule, k, c.M.InstrPos(call), "the value is converted whatever its kind",
					why+": reflect's Convert truncates a float to an integer and turns an integer into the rune with that code, so Validate / Serialize check and emit another value than the one passed (3.7 is accepted by an integer schema as 3, 65 by a string schema as \"A\"), which Unserialize rejects")
			}
		}
	}
	// unsigned sources above MaxInt64 wrap around when converted to a signed integer
	for _, fn := range c.M.SortedFuncs(scope) {
		cnt := 0
		for _, b := range fn.Blocks {
			for _, in := range b.Instrs {
				call, ok := in.(*ssa.Call)
				if !ok || reflectValueMethod(call) != "Convert" || len(call.Call.Args) != 2 {
					continue
				}
				tt := core.ReflectTypeOfStatic(call.Call.Args[1])
				if tt == nil {
					continue
				}
				mayBeSigned := false
				for _, to := range scalarKinds(tt, kinds) {
					if kinds.isInt(to) && !strings.HasPrefix(kinds.byValue[to], "Uint") {
						mayBeSigned = true
					}
				}
				if !mayBeSigned {
					continue
				}
				cnt++
				path := c.reflPath(call.Call.Args[0], 0)
				k := key(rule, c.M.Key(fn), sprintf("Convert #%d of %s to %s: unsigned values above MaxInt64 excluded", cnt, c.stable(fn, path), typeStr(tt)))
				est := func(cond core.Cond) bool {
					// CanUint() found false, or Uint() compared with a constant >= 2^63-1 on the not-greater side
					if cc, ok := cond.V.(*ssa.Call); ok && reflectValueMethod(cc) == "CanUint" && c.reflPath(cc.Call.Args[0], 0) == path {
						return !cond.True
					}
					x, op, k, ok := core.CmpConst(cond)
					if !ok {
						return false
					}
					uc, ok := x.(*ssa.Call)
					if !ok || reflectValueMethod(uc) != "Uint" || c.reflPath(uc.Call.Args[0], 0) != path {
						return false
					}
					// what holds is Uint() <= k with k <= MaxInt64, or Uint() < k with k <= MaxInt64 + 1
					switch op {
					case token.LEQ:
						return !constant.Compare(k, token.GTR, constant.MakeUint64(1<<63-1))
					case token.LSS:
						return !constant.Compare(k, token.GTR, constant.MakeUint64(1<<63))
					}
					return false
				}
				// only the paths on which an unsigned kind was admitted at all need it; a Kind()-based exclusion of the
				// unsigned kinds counts as well
				fa := kindFact{accept: func(kv int64, eq bool) bool {
					return eq && !strings.HasPrefix(kinds.byValue[kv], "Uint")
				}}
				if core.MustHold(fn, est)[b] || core.MustHold(fn, c.kindEst(path, fa, 0))[b] {
					c.R.Ok(rule, k, c.M.InstrPos(call), "conversion to a signed integer", "on every path the value was found not to be unsigned, or its Uint() not above MaxInt64")
				} else {
					c.R.Bad(rule, k, c.M.InstrPos(call), "an unsigned value above MaxInt64 is converted to a signed integer",
						"reflect's Convert wraps around: uint64(MaxUint64) becomes -1 and is then checked against the bounds / enum members as -1 - Validate and Serialize accept a value that Unserialize rejects")
				}
			}
		}
	}
	c.R.Note("%s: %d conversions to a statically known scalar type in %d functions reachable from Validate / Serialize", rule, n, len(scope))
}

type kindTable struct {
	byName  map[string]int64
	byValue map[int64]string
}

func reflectKinds(prog *ssa.Program) kindTable {
	t := kindTable{map[string]int64{}, map[int64]string{}}
	rp := prog.ImportedPackage("reflect")
	if rp == nil {
		return t
	}
	for name, m := range rp.Members {
		nc, ok := m.(*ssa.NamedConst)
		if !ok {
			continue
		}
		named, ok := nc.Type().(*types.Named)
		if !ok || named.Obj().Name() != "Kind" || name == "Ptr" {
			continue
		}
		if v, ok := constant.Int64Val(nc.Value.Value); ok {
			t.byName[name] = v
			t.byValue[v] = name
		}
	}
	return t
}

func (t kindTable) isInt(k int64) bool {
	n := t.byValue[k]
	return (strings.HasPrefix(n, "Int") && n != "Interface" && n != "Invalid") || (strings.HasPrefix(n, "Uint") && n != "Uintptr")
}

func (t kindTable) isFloat(k int64) bool {
	return strings.HasPrefix(t.byValue[k], "Float")
}

func kindAgrees(from, to int64, t kindTable) bool {
	switch {
	case t.isInt(to):
		return t.isInt(from)
	case t.isFloat(to):
		return t.isInt(from) || t.isFloat(from)
	}
	return from == to
}

// scalarKinds: the reflect kinds a value of static type tt can have, for basic types and type parameters whose terms
// are basic; nil otherwise.
func scalarKinds(tt types.Type, t kindTable) []int64 {
	var out []int64
	add := func(b *types.Basic) bool {
		name := ""
		switch b.Kind() {
		case types.Bool:
			name = "Bool"
		case types.Int:
			name = "Int"
		case types.Int8:
			name = "Int8"
		case types.Int16:
			name = "Int16"
		case types.Int32:
			name = "Int32"
		case types.Int64:
			name = "Int64"
		case types.Uint:
			name = "Uint"
		case types.Uint8:
			name = "Uint8"
		case types.Uint16:
			name = "Uint16"
		case types.Uint32:
			name = "Uint32"
		case types.Uint64:
			name = "Uint64"
		case types.Float32:
			name = "Float32"
		case types.Float64:
			name = "Float64"
		case types.String:
			name = "String"
		default:
			return false
		}
		out = append(out, t.byName[name])
		return true
	}
	if tp, ok := tt.(*types.TypeParam); ok {
		it, ok := tp.Constraint().Underlying().(*types.Interface)
		if !ok {
			return nil
		}
		okAll := true
		var walk func(x types.Type)
		walk = func(x types.Type) {
			switch u := x.(type) {
			case *types.Union:
				for i := 0; i < u.Len(); i++ {
					walk(u.Term(i).Type())
				}
			case *types.Basic:
				if !add(u) {
					okAll = false
				}
			case *types.Named:
				if ui, isI := u.Underlying().(*types.Interface); isI {
					for i := 0; i < ui.NumEmbeddeds(); i++ {
						walk(ui.EmbeddedType(i))
					}
				} else if b, isB := u.Underlying().(*types.Basic); isB {
					if !add(b) {
						okAll = false
					}
				} else {
					okAll = false
				}
			default:
				okAll = false
			}
		}
		for i := 0; i < it.NumEmbeddeds(); i++ {
			walk(it.EmbeddedType(i))
		}
		if !okAll {
			return nil
		}
		sort.Slice(out, func(i, j int) bool { return out[i] < out[j] })
		return out
	}
	if b, ok := tt.Underlying().(*types.Basic); ok {
		if add(b) {
			return out
		}
	}
	return nil
}

// evalKindPredicate interprets a function over integer arguments that only compares them with constants (and calls
// functions of the same sort, closures without free variables included) and returns a boolean. ok=false when the
// function does anything else.
func evalKindPredicate(fn *ssa.Function, args []int64, depth int) (result bool, ok bool) {
	if depth > 4 || len(fn.Blocks) == 0 || len(fn.Params) != len(args) || len(fn.FreeVars) != 0 {
		return false, false
	}
	env := map[ssa.Value]constant.Value{}
	for i, p := range fn.Params {
		env[p] = constant.MakeInt64(args[i])
	}
	val := func(v ssa.Value) (constant.Value, bool) {
		if cst, isC := v.(*ssa.Const); isC && cst.Value != nil {
			return cst.Value, true
		}
		x, has := env[v]
		return x, has
	}
	var prev *ssa.BasicBlock
	b := fn.Blocks[0]
	for steps := 0; steps < 10000; steps++ {
		var next *ssa.BasicBlock
		for _, in := range b.Instrs {
			switch x := in.(type) {
			case *ssa.Phi:
				found := false
				for i, p := range b.Preds {
					if p == prev {
						v, has := val(x.Edges[i])
						if !has {
							return false, false
						}
						env[x] = v
						found = true
					}
				}
				if !found {
					return false, false
				}
			case *ssa.BinOp:
				l, ok1 := val(x.X)
				r, ok2 := val(x.Y)
				if !ok1 || !ok2 {
					return false, false
				}
				switch x.Op {
				case token.EQL, token.NEQ, token.LSS, token.LEQ, token.GTR, token.GEQ:
					if l.Kind() == constant.Bool || r.Kind() == constant.Bool {
						if x.Op != token.EQL && x.Op != token.NEQ {
							return false, false
						}
						eq := constant.BoolVal(l) == constant.BoolVal(r)
						env[x] = constant.MakeBool(eq == (x.Op == token.EQL))
					} else {
						env[x] = constant.MakeBool(constant.Compare(l, x.Op, r))
					}
				default:
					return false, false
				}
			case *ssa.UnOp:
				if x.Op != token.NOT {
					return false, false
				}
				v, has := val(x.X)
				if !has || v.Kind() != constant.Bool {
					return false, false
				}
				env[x] = constant.MakeBool(!constant.BoolVal(v))
			case *ssa.Convert:
				v, has := val(x.X)
				if !has {
					return false, false
				}
				env[x] = v
			case *ssa.ChangeType:
				v, has := val(x.X)
				if !has {
					return false, false
				}
				env[x] = v
			case *ssa.Call:
				g, isFn := x.Call.Value.(*ssa.Function)
				if !isFn {
					if mc, isMC := x.Call.Value.(*ssa.MakeClosure); isMC && len(mc.Bindings) == 0 {
						g, isFn = mc.Fn.(*ssa.Function)
					}
				}
				if !isFn {
					return false, false
				}
				var as []int64
				for _, a := range x.Call.Args {
					v, has := val(a)
					if !has || v.Kind() != constant.Int {
						return false, false
					}
					iv, exact := constant.Int64Val(v)
					if !exact {
						return false, false
					}
					as = append(as, iv)
				}
				r, ok := evalKindPredicate(g, as, depth+1)
				if !ok {
					return false, false
				}
				env[x] = constant.MakeBool(r)
			case *ssa.MakeClosure:
				if len(x.Bindings) != 0 {
					return false, false
				}
			case *ssa.If:
				v, has := val(x.Cond)
				if !has || v.Kind() != constant.Bool {
					return false, false
				}
				if constant.BoolVal(v) {
					next = b.Succs[0]
				} else {
					next = b.Succs[1]
				}
			case *ssa.Jump:
				next = b.Succs[0]
			case *ssa.Return:
				if len(x.Results) != 1 {
					return false, false
				}
				v, has := val(x.Results[0])
				if !has || v.Kind() != constant.Bool {
					return false, false
				}
				return constant.BoolVal(v), true
			case *ssa.DebugRef:
			default:
				return false, false
			}
		}
		if next == nil {
			return false, false
		}
		prev, b = b, next
	}
	return false, false
}

// R-FMTPREC (C02 "the accepted result is exactly the denoted value"): a float that is turned into a string VALUE
// (the result of an input mapper, not the text of an error message) with a fixed number of decimals is another value:
// "%f" renders 1e-7 as "0.000000" and 1.5 as "1.500000", so an enum member "1.5" is not found and two distinct map
// keys collide. Obligation: in everything reachable from Unserialize, a fmt.Sprintf with a fixed-precision float verb
// whose result is returned as the function's string result. strconv.FormatFloat(v, 'f', -1, bits) is the exact form.
func (c *Ctx) ruleFmtPrec(rule string) {
	scope := c.M.Reachable(c.entryData("Unserialize", "UnserializeType"), nil)
	n := 0
	for _, fn := range c.M.SortedFuncs(scope) {
		if !c.scopePkg("schema")[fn] {
			continue
		}
		cnt := 0
		for _, r := range core.ReturnsOf(fn) {
			if len(r.Results) == 0 {
				continue
			}
			call, ok := core.RetVal(r, 0).(*ssa.Call)
			if !ok || core.StaticCalleeName(&call.Call) != "fmt.Sprintf" {
				continue
			}
			format, ok := core.ConstString(call.Call.Args[0])
			if !ok {
				continue
			}
			n++
			fixed := strings.Contains(format, "%f") || strings.Contains(format, "%.") || strings.Contains(format, "%e") || strings.Contains(format, "%g")
			if !fixed {
				continue
			}
			cnt++
			k := key(rule, c.M.Key(fn), sprintf("formatted value #%d keeps the number", cnt))
			c.R.Bad(rule, k, c.M.InstrPos(call), "a float is turned into a string value with a fixed-precision verb ("+format+")",
				"the string is the unserialized VALUE: 1e-7 becomes \"0.000000\", 1.5 becomes \"1.500000\" (not a member of the enum {\"1.5\"}), 0.1234561 and 0.1234562 become the same map key")
		}
	}
	c.R.Ok(rule, key(rule, "schema", "no fixed-precision float rendering is returned as a value"), "-", "string values built with fmt.Sprintf", sprintf("%d Sprintf results returned as values examined in the code reachable from Unserialize", n))
}
