package rules

import (
	"go/types"
	"reflect"
	"sort"
	"strings"

	"golang.org/x/tools/go/ssa"

	"verifcheck/internal/core"
)

// R-FORWARD (C09, C10, C14): references resolve lexically.
//  (1) ApplyNamespace / ValidateReferences of every container forward to every child (json-tagged field whose type is
//      Serializable, or a map/slice of such) with the namespace and the object table passed unchanged;
//  (2) the scope substitutes its own table exactly for the self namespace;
//  (3) the reference writes its link only when the namespace matches, and with the object looked up by its own ID;
//      ValidateReferences of the reference succeeds iff the link is set;
//  (4) the loaders reach ApplySelf for every scope-typed descendant of what they return.

type childField struct {
	name string
	coll bool // map or slice of serializables
}

func jsonTag(st *types.Struct, i int) string {
	tag := reflect.StructTag(st.Tag(i)).Get("json")
	if tag == "" {
		return ""
	}
	return strings.Split(tag, ",")[0]
}

// serializableLike: t (or *t) has the Serializable method names, or is an interface containing them.
func (c *Ctx) serializableLike(t types.Type) bool {
	names := []string{"ReflectedType", "Unserialize", "Validate", "ValidateCompatibility", "Serialize", "ApplyNamespace", "ValidateReferences"}
	var ms *types.MethodSet
	if _, ok := t.Underlying().(*types.Interface); ok {
		ms = types.NewMethodSet(t)
	} else if tp, ok := t.(*types.TypeParam); ok {
		ms = types.NewMethodSet(tp.Constraint())
	} else {
		if p, ok := t.(*types.Pointer); ok {
			t = p.Elem()
		}
		ms = types.NewMethodSet(types.NewPointer(t))
	}
	have := map[string]bool{}
	for i := 0; i < ms.Len(); i++ {
		have[ms.At(i).Obj().Name()] = true
	}
	for _, n := range names {
		if !have[n] {
			return false
		}
	}
	return true
}

func (c *Ctx) childrenOf(named *types.Named) []childField {
	st, ok := named.Underlying().(*types.Struct)
	if !ok {
		return nil
	}
	var out []childField
	for i := 0; i < st.NumFields(); i++ {
		f := st.Field(i)
		if f.Embedded() {
			continue // inline-embedded bases have their own methods
		}
		if jsonTag(st, i) == "" {
			continue // not part of the described structure (a ref's link is deliberately not a child)
		}
		t := f.Type()
		switch u := t.Underlying().(type) {
		case *types.Map:
			if c.serializableLike(u.Elem()) {
				out = append(out, childField{f.Name(), true})
			}
			continue
		case *types.Slice:
			if c.serializableLike(u.Elem()) {
				out = append(out, childField{f.Name(), true})
			}
			continue
		}
		if c.serializableLike(t) {
			out = append(out, childField{f.Name(), false})
		}
	}
	return out
}

// fieldTrail: the chain of field names through which v was obtained from the receiver / parameters
// (range elements and map lookups add nothing; trivial getters count as their field).
func (c *Ctx) fieldTrail(v ssa.Value, depth int) (string, bool) {
	if depth > 12 {
		return "", false
	}
	switch x := v.(type) {
	case *ssa.Parameter:
		return c.paramTrail[x], true
	case *ssa.FreeVar:
		return "", true
	case *ssa.Alloc:
		if refs := x.Referrers(); refs != nil {
			for _, r := range *refs {
				if st, ok := r.(*ssa.Store); ok && st.Addr == ssa.Value(x) {
					return c.fieldTrail(st.Val, depth+1)
				}
			}
		}
	case *ssa.UnOp:
		if x.Op.String() == "*" {
			switch a := x.X.(type) {
			case *ssa.FieldAddr:
				t, ok := c.fieldTrail(a.X, depth+1)
				return joinTrail(t, fieldName(a.X.Type(), a.Field)), ok
			case *ssa.Alloc:
				if refs := a.Referrers(); refs != nil {
					for _, r := range *refs {
						if st, ok := r.(*ssa.Store); ok && st.Addr == ssa.Value(a) {
							return c.fieldTrail(st.Val, depth+1)
						}
					}
				}
			case *ssa.IndexAddr:
				return c.fieldTrail(a.X, depth+1)
			}
			return c.fieldTrail(x.X, depth+1)
		}
	case *ssa.Field:
		t, ok := c.fieldTrail(x.X, depth+1)
		return joinTrail(t, fieldName(x.X.Type(), x.Field)), ok
	case *ssa.FieldAddr:
		t, ok := c.fieldTrail(x.X, depth+1)
		return joinTrail(t, fieldName(x.X.Type(), x.Field)), ok
	case *ssa.Extract:
		switch t := x.Tuple.(type) {
		case *ssa.Next:
			if rg, ok := t.Iter.(*ssa.Range); ok {
				return c.fieldTrail(rg.X, depth+1)
			}
		case *ssa.Lookup:
			return c.fieldTrail(t.X, depth+1)
		case *ssa.Call:
			if len(c.M.Callees(&t.Call)) > 0 {
				return "", true // a value produced by a repo call is a root (the loader's freshly built result)
			}
		case *ssa.TypeAssert:
			return c.fieldTrail(t.X, depth+1)
		}
	case *ssa.Lookup:
		return c.fieldTrail(x.X, depth+1)
	case *ssa.Call:
		if !x.Call.IsInvoke() && len(x.Call.Args) >= 1 {
			if cs := c.M.Callees(&x.Call); len(cs) == 1 {
				if f, ok := c.M.GetterField(cs[0]); ok {
					t, ok2 := c.fieldTrail(x.Call.Args[0], depth+1)
					return joinTrail(t, f), ok2
				}
			}
		}
		if x.Call.IsInvoke() {
			// interface getter such as output.Schema(): resolve through the unique repo implementation's getter field
			cs := c.M.Callees(&x.Call)
			field := ""
			for _, callee := range cs {
				f, ok := c.M.GetterField(callee)
				if !ok {
					return "", false
				}
				if field != "" && field != f {
					return "", false
				}
				field = f
			}
			if field != "" {
				t, ok := c.fieldTrail(x.Call.Value, depth+1)
				return joinTrail(t, field), ok
			}
		}
	case *ssa.MakeInterface:
		return c.fieldTrail(x.X, depth+1)
	case *ssa.ChangeInterface:
		return c.fieldTrail(x.X, depth+1)
	case *ssa.ChangeType:
		return c.fieldTrail(x.X, depth+1)
	case *ssa.TypeAssert:
		return c.fieldTrail(x.X, depth+1)
	}
	return "", false
}

func joinTrail(a, b string) string {
	if a == "" {
		return b
	}
	return a + "." + b
}

// trailsThroughSlices: like fieldTrail, but when v is an element of a slice returned by a repo function, returns the
// trails of every value that function appends (prefixed with the trail of its receiver).
func (c *Ctx) trails(v ssa.Value) ([]string, bool) {
	if t, ok := c.fieldTrail(v, 0); ok {
		return []string{t}, true
	}
	// element of a slice (range over call result)
	var sl ssa.Value
	if ld, ok := v.(*ssa.UnOp); ok {
		if ia, ok := ld.X.(*ssa.IndexAddr); ok {
			sl = ia.X
		}
	}
	call, ok := sl.(*ssa.Call)
	if !ok || call.Call.IsInvoke() || len(call.Call.Args) < 1 {
		return nil, false
	}
	cs := c.M.Callees(&call.Call)
	if len(cs) != 1 {
		return nil, false
	}
	prefix, ok := c.fieldTrail(call.Call.Args[0], 0)
	if !ok {
		return nil, false
	}
	var out []string
	okAll := true
	for _, b := range cs[0].Blocks {
		for _, in := range b.Instrs {
			ap, isCall := in.(*ssa.Call)
			if !isCall {
				continue
			}
			bi, isB := ap.Call.Value.(*ssa.Builtin)
			if !isB || bi.Name() != "append" || len(ap.Call.Args) != 2 {
				continue
			}
			// appended elements: stores into the variadic array
			if s2, ok := ap.Call.Args[1].(*ssa.Slice); ok {
				if al, ok := s2.X.(*ssa.Alloc); ok {
					for _, r := range *al.Referrers() {
						if ia, ok := r.(*ssa.IndexAddr); ok {
							for _, r2 := range *ia.Referrers() {
								if st, ok := r2.(*ssa.Store); ok {
									t, ok := c.fieldTrail(st.Val, 0)
									if !ok {
										okAll = false
										continue
									}
									out = append(out, joinTrail(prefix, t))
								}
							}
						}
					}
					continue
				}
			}
			okAll = false
		}
	}
	return out, okAll && len(out) > 0
}

func (c *Ctx) ruleForward(rule string) {
	for _, named := range c.serializableTypes() {
		children := c.childrenOf(named)
		tname := named.Obj().Name()
		for _, method := range []string{"ApplyNamespace", "ValidateReferences"} {
			fn := c.methodFn(named, method)
			if fn == nil || fn.Blocks == nil {
				continue
			}
			// only check a function once, for the type that declares it
			if !strings.HasPrefix(c.M.Key(fn), "schema."+tname+".") {
				continue
			}
			// calls of `method` in fn, with the trail of their receiver
			type fwd struct {
				call   *ssa.Call
				trail  string
				looped bool // the elements are visited in a loop of a helper that was handed the collection
			}
			var fwds []fwd
			for _, b := range fn.Blocks {
				for _, in := range b.Instrs {
					call, ok := in.(*ssa.Call)
					if !ok {
						continue
					}
					name := c.calledMethodName(call)
					if name != method {
						// a helper of the package that is handed a child and calls the method on it (on its elements, in
						// a loop) and hands the verdict back
						if helper := core.StaticBody(&call.Call); helper != nil && helper.Pkg == fn.Pkg && !call.Call.IsInvoke() {
							for ai, a := range call.Call.Args {
								if ai >= len(helper.Params) {
									break
								}
								t, _ := c.fieldTrail(a, 0)
								if t == "" {
									continue
								}
								for _, hb := range helper.Blocks {
									for _, hin := range hb.Instrs {
										hcall, ok := hin.(*ssa.Call)
										if !ok || c.calledMethodName(hcall) != method {
											continue
										}
										recv := hcall.Call.Value
										if !hcall.Call.IsInvoke() && len(hcall.Call.Args) > 0 {
											recv = hcall.Call.Args[0]
										}
										prm := helper.Params[ai]
										if !derivedFrom(recv, func(x ssa.Value) bool { return x == ssa.Value(prm) }) && !rangesOver(recv, prm) {
											continue
										}
										if method == "ValidateReferences" && !c.resultReachesReturn(hcall) {
											continue
										}
										fwds = append(fwds, fwd{call, t, blockInLoop(hcall.Block())})
									}
								}
							}
						}
						continue
					}
					recv := call.Call.Value
					if !call.Call.IsInvoke() && len(call.Call.Args) > 0 {
						recv = call.Call.Args[0]
					}
					t, _ := c.fieldTrail(recv, 0)
					fwds = append(fwds, fwd{call, t, false})
				}
			}
			for _, ch := range children {
				k := key(rule, "schema."+tname+"."+method, "forwards to child "+ch.name)
				var hit *fwd
				for i := range fwds {
					if fwds[i].trail == ch.name {
						hit = &fwds[i]
					}
				}
				if hit == nil {
					c.R.Bad(rule, k, c.M.Pos(fn.Pos()), tname+"."+method+" does not reach its child "+ch.name,
						"references below "+ch.name+" are never linked / checked: they stay dangling (panic on first use) or unlinked references pass the check")
					continue
				}
				if ch.coll && !blockInLoop(hit.call.Block()) && !hit.looped {
					c.R.Bad(rule, k, c.M.InstrPos(hit.call), tname+"."+method+" visits only one element of "+ch.name, "the call on the collection's elements is not inside a loop")
					continue
				}
				// every element of a collection is visited: no way round the call inside the loop (`if element.flag {
				// continue }` leaves the references below that element unlinked / unchecked)
				if ch.coll && !hit.looped {
					if skipped := c.loopSkipsCall(fn, hit.call); skipped != "" {
						c.R.Bad(rule, k, c.M.InstrPos(hit.call), tname+"."+method+" can pass an element of "+ch.name+" by",
							"a path through the loop body ("+skipped+") reaches the next element without the call on this one: references below it stay unlinked / unchecked, and the operations that look at the type first (Validate, Serialize, compatibility, the shorthand probe) panic on them")
						continue
					}
				}
				// a single child is visited on every path on which the method can report success (a collection may be
				// empty: its loop need not run)
				if !ch.coll {
					if passes, _ := c.mustPassAll(fn, func(in ssa.Instruction) bool { return in == ssa.Instruction(hit.call) }); !passes {
						c.R.Bad(rule, k, c.M.InstrPos(hit.call), tname+"."+method+" can return without having visited its child "+ch.name,
							"some path returns success before the call on the child (an early return for a flag of the container): references below "+ch.name+" stay unlinked / unchecked on that path, and the operations that look at the type first (Validate, Serialize, compatibility, the shorthand probe) panic on them although the check had passed")
						continue
					}
				}
				if method == "ApplyNamespace" {
					// arguments unchanged (the scope's table substitution is checked separately)
					args := hit.call.Call.Args
					if !hit.call.Call.IsInvoke() {
						args = args[1:]
					}
					okArgs := len(args) == 2 && len(fn.Params) == 3 && args[1] == ssa.Value(fn.Params[2])
					if okArgs && tname != "ScopeSchema" {
						okArgs = args[0] == ssa.Value(fn.Params[1])
					}
					if !okArgs {
						c.R.Bad(rule, k, c.M.InstrPos(hit.call), tname+".ApplyNamespace changes the namespace or object table it passes to "+ch.name,
							"lexical scoping requires the namespace string and the table to be handed down unchanged (only a scope substitutes its own table, for the self namespace)")
						continue
					}
					c.R.Ok(rule, k, c.M.InstrPos(hit.call), "namespace forwarded to child "+ch.name, "called on the child (inside a loop for collections) with the namespace and table parameters unchanged")
				} else {
					// the child's verdict must be able to reach a return
					if c.resultReachesReturn(hit.call) {
						c.R.Ok(rule, k, c.M.InstrPos(hit.call), "reference check forwarded to child "+ch.name, "the child's result is returned (directly or on its non-nil branch)")
					} else {
						c.R.Bad(rule, k, c.M.InstrPos(hit.call), tname+".ValidateReferences drops the verdict of child "+ch.name, "an unlinked reference below the child is not reported")
					}
				}
			}
		}
	}
	c.scopeAndRef(rule)
	c.loadersLink(rule)
	c.R.Floor(rule, 20)
}

// loopSkipsCall: the call sits in a loop over a map or a slice; some path from the extraction of the element back to
// the loop's header does not pass the call (and does not leave the function). Returns the position of the branch that
// goes round it, "" if there is none.
func (c *Ctx) loopSkipsCall(fn *ssa.Function, call *ssa.Call) string {
	// the header: the innermost block that dominates the call's block and is reachable from it
	var header *ssa.BasicBlock
	for _, cand := range fn.Blocks {
		if cand != call.Block() && cand.Dominates(call.Block()) && blockReaches(call.Block(), cand, nil) {
			backEdge := false
			for _, p := range cand.Preds {
				if cand.Dominates(p) {
					backEdge = true
				}
			}
			if backEdge && (header == nil || header.Dominates(cand)) {
				header = cand
			}
		}
	}
	if header == nil {
		return ""
	}
	// the body entry: the successor of the header from which the call is reachable without passing the header again
	var entry *ssa.BasicBlock
	for _, s := range header.Succs {
		if s == call.Block() || blockReaches(s, call.Block(), func(b *ssa.BasicBlock) bool { return b == header }) {
			entry = s
		}
	}
	if entry == nil {
		return ""
	}
	skipped := ""
	seen := map[*ssa.BasicBlock]bool{}
	var walk func(b *ssa.BasicBlock)
	walk = func(b *ssa.BasicBlock) {
		if seen[b] || skipped != "" {
			return
		}
		seen[b] = true
		for _, in := range b.Instrs {
			if in == ssa.Instruction(call) {
				return
			}
			switch in.(type) {
			case *ssa.Return, *ssa.Panic:
				return
			}
		}
		for _, s := range b.Succs {
			if s == header {
				skipped = c.M.InstrPos(b.Instrs[len(b.Instrs)-1])
				if p := b.Instrs[len(b.Instrs)-1].Pos(); !p.IsValid() {
					for _, in := range b.Instrs {
						if in.Pos().IsValid() {
							skipped = c.M.InstrPos(in)
						}
					}
				}
				return
			}
			walk(s)
		}
	}
	walk(entry)
	return skipped
}

// rangesOver: v is an element (the value of a range, an indexed element) of the collection held by prm.
func rangesOver(v ssa.Value, prm *ssa.Parameter) bool {
	return derivedFrom(v, func(x ssa.Value) bool {
		switch y := x.(type) {
		case *ssa.Extract:
			if nx, ok := y.Tuple.(*ssa.Next); ok {
				if rg, ok := nx.Iter.(*ssa.Range); ok {
					return rg.X == ssa.Value(prm)
				}
			}
		case *ssa.Lookup:
			return y.X == ssa.Value(prm)
		case *ssa.IndexAddr:
			return y.X == ssa.Value(prm)
		}
		return false
	})
}

func (c *Ctx) resultReachesReturn(call *ssa.Call) bool {
	refs := call.Referrers()
	if refs == nil {
		return false
	}
	// the verdict is one of the values the function returns (directly, or merged into a result variable)
	if fn := call.Parent(); fn != nil {
		if ei := core.ErrorResultIndex(fn.Signature); ei >= 0 {
			for _, site := range core.RetSites(fn, ei) {
				if core.Unwrap(site.Val) == ssa.Value(call) {
					return true
				}
			}
		}
	}
	for _, r := range *refs {
		if _, ok := r.(*ssa.Return); ok {
			return true
		}
		if al, ok := r.(*ssa.Store); ok {
			_ = al
			return true // stored into a result variable
		}
	}
	// `err := child.ValidateReferences(); if err != nil { return err }`
	for _, r := range *refs {
		if bin, ok := r.(*ssa.BinOp); ok {
			if _, _, isNil := core.NilCmp(bin); isNil {
				for _, r2 := range *refs {
					if _, ok := r2.(*ssa.Return); ok {
						return true
					}
				}
			}
		}
	}
	return false
}

func (c *Ctx) scopeAndRef(rule string) {
	// (2) scope
	if fn := c.fn(rule, "schema.ScopeSchema.ApplyNamespace"); fn != nil {
		k := key(rule, "schema.ScopeSchema.ApplyNamespace", "own table exactly for the self namespace")
		var fwd *ssa.Call
		for _, b := range fn.Blocks {
			for _, in := range b.Instrs {
				if call, ok := in.(*ssa.Call); ok && c.calledMethodName(call) == "ApplyNamespace" {
					fwd = call
				}
			}
		}
		if fwd == nil {
			c.R.Bad(rule, k, c.M.Pos(fn.Pos()), "scope does not forward ApplyNamespace", "")
		} else {
			args := fwd.Call.Args
			if !fwd.Call.IsInvoke() {
				args = args[1:]
			}
			ok := false
			why := "the table handed to the scope's objects is not `own objects if namespace == SelfNamespace else the external table`"
			// the ways the table comes about: the two edges of a merge, or the two returns of a same-receiver helper that
			// is handed the external table and the namespace
			type way struct {
				val   ssa.Value
				conds []core.Cond
			}
			var ways []way
			g, ext, ns := fn, fn.Params[1], fn.Params[2]
			if phi, isPhi := args[0].(*ssa.Phi); isPhi && len(phi.Edges) == 2 {
				for i, e := range phi.Edges {
					pred := phi.Block().Preds[i]
					ways = append(ways, way{e, append(core.CondsAt(pred), edgeCond(pred, phi.Block())...)})
				}
			} else if hc, isCall := args[0].(*ssa.Call); isCall {
				if h := core.StaticBody(&hc.Call); h != nil && h.Signature.Recv() != nil && len(hc.Call.Args) > 0 && hc.Call.Args[0] == ssa.Value(fn.Params[0]) {
					var hext, hns *ssa.Parameter
					for i, a := range hc.Call.Args {
						if a == ssa.Value(fn.Params[1]) {
							hext = h.Params[i]
						}
						if a == ssa.Value(fn.Params[2]) {
							hns = h.Params[i]
						}
					}
					if rets := core.ReturnsOf(h); hext != nil && hns != nil && len(rets) == 2 {
						g, ext, ns = h, hext, hns
						for _, r := range rets {
							if len(r.Results) == 1 {
								ways = append(ways, way{r.Results[0], core.CondsAt(r.Block())})
							}
						}
					}
				}
			}
			// what the conditions of a way say about `namespace == ""`: +1 equal, -1 different, 0 nothing
			saysSelf := func(conds []core.Cond) int {
				for _, cond := range conds {
					if bin, isBin := cond.V.(*ssa.BinOp); isBin && (bin.Op.String() == "==" || bin.Op.String() == "!=") {
						isEq := (bin.Op.String() == "==") == cond.True
						var other ssa.Value
						if bin.X == ssa.Value(ns) {
							other = bin.Y
						} else if bin.Y == ssa.Value(ns) {
							other = bin.X
						}
						if other != nil {
							if s, isStr := core.ConstString(other); isStr && s == "" {
								if isEq {
									return 1
								}
								return -1
							}
						}
					}
				}
				return 0
			}
			if len(ways) == 2 {
				ownIdx, extIdx := -1, -1
				for i, w := range ways {
					if w.val == ssa.Value(ext) {
						extIdx = i
					} else if p := c.M.ValPath(w.val); p == g.Params[0].Name()+".ObjectsValue" {
						ownIdx = i
					}
				}
				if ownIdx >= 0 && extIdx >= 0 {
					// the own table must come from the `namespace == ""` branch (and, where the two ways are separate
					// returns, the external table from the other one)
					ok = saysSelf(ways[ownIdx].conds) == 1
					if ok && g != fn && saysSelf(ways[extIdx].conds) != -1 {
						ok = false
					}
					if !ok {
						why = "the scope's own table is not selected by `namespace == SelfNamespace`"
					}
				}
			}
			if ok {
				c.R.Ok(rule, k, c.M.InstrPos(fwd), "table substitution of the scope", "phi(own ObjectsValue | namespace == \"\", external table otherwise) is what the objects receive")
			} else {
				c.R.Bad(rule, k, c.M.InstrPos(fwd), "scope passes the wrong object table", why+": inner scopes no longer shadow outer ones / foreign namespaces resolve against the wrong table")
			}
		}
	}
	// (3) reference
	if fn := c.fn(rule, "schema.RefSchema.ApplyNamespace"); fn != nil {
		k := key(rule, "schema.RefSchema.ApplyNamespace", "link only on namespace match, to the object with the reference's ID")
		n := 0
		// the function and the unexported workers it hands over to (an entry/worker pair): a worker's parameter stands
		// for what every call site passes
		group := []*ssa.Function{fn}
		for gi := 0; gi < len(group) && gi < 4; gi++ {
			for _, gb := range group[gi].Blocks {
				for _, in := range gb.Instrs {
					call, ok := in.(*ssa.Call)
					if !ok {
						continue
					}
					w := core.StaticBody(&call.Call)
					if w == nil || len(core.PlainSites(w)) == 0 || w.Signature.Recv() == nil || len(w.Params) == 0 ||
						!types.Identical(w.Params[0].Type(), fn.Params[0].Type()) {
						continue
					}
					inGroup := false
					for _, g := range group {
						if g == w {
							inGroup = true
						}
					}
					if !inGroup {
						group = append(group, w)
					}
				}
			}
		}
		standsFor := func(v ssa.Value, p *ssa.Parameter) bool {
			for _, src := range core.ParamSources(v) {
				if src != ssa.Value(p) {
					return false
				}
			}
			return true
		}
		for _, g := range group {
			for _, b := range g.Blocks {
				for _, in := range b.Instrs {
					st, ok := in.(*ssa.Store)
					if !ok {
						continue
					}
					fa, ok := st.Addr.(*ssa.FieldAddr)
					if !ok || c.M.ValPath(fa.X) != g.Params[0].Name() {
						continue
					}
					n++
					matched := false
					for _, cond := range core.CondsAt(b) {
						if bin, isBin := cond.V.(*ssa.BinOp); isBin && (bin.Op.String() == "==" || bin.Op.String() == "!=") {
							isEq := (bin.Op.String() == "==") == cond.True
							px, py := c.M.CondPath(g, cond, bin.X), c.M.CondPath(g, cond, bin.Y)
							own := g.Params[0].Name() + ".ObjectNamespace"
							isNS := func(path string) bool {
								for _, q := range g.Params {
									if q.Name() == path && standsFor(q, fn.Params[2]) {
										return true
									}
								}
								return false
							}
							if isEq && ((isNS(px) && py == own) || (isNS(py) && px == own)) {
								matched = true
							}
						}
					}
					// value: objects[r.IDValue]
					fromTable := false
					v := st.Val
					if mi, ok := v.(*ssa.MakeInterface); ok {
						v = mi.X
					}
					var isTableEntry func(v ssa.Value, in *ssa.Function, depth int) bool
					isTableEntry = func(v ssa.Value, in *ssa.Function, depth int) bool {
						isLookup := func(lk *ssa.Lookup) bool {
							return standsFor(lk.X, fn.Params[1]) && c.M.ValPath(lk.Index) == in.Params[0].Name()+".IDValue"
						}
						if e, ok := v.(*ssa.Extract); ok {
							if lk, ok := e.Tuple.(*ssa.Lookup); ok && isLookup(lk) {
								return true
							}
						}
						if lk, ok := v.(*ssa.Lookup); ok && isLookup(lk) {
							return true
						}
						// the result of a worker of the group, every way out of which hands out such an entry
						if call, idx, isCall := core.CallResult(v); isCall && depth < 3 {
							w := core.StaticBody(&call.Call)
							inGroup := false
							for _, gg := range group {
								if gg == w {
									inGroup = true
								}
							}
							if inGroup && w != in {
								sites := core.RetSites(w, idx)
								for _, site := range sites {
									if !isTableEntry(site.Val, w, depth+1) {
										return false
									}
								}
								return len(sites) > 0
							}
						}
						return false
					}
					fromTable = isTableEntry(v, g, 0)
					switch {
					case !matched:
						c.R.Bad(rule, k, c.M.InstrPos(st), "reference linked regardless of the namespace", "applying one namespace re-points references that belong to another")
					case !fromTable:
						c.R.Bad(rule, k, c.M.InstrPos(st), "reference linked to something else than objects[its ID]", "")
					default:
						c.R.Ok(rule, k, c.M.InstrPos(st), "link of a reference", "stored only under namespace == own namespace, value = objects[own ID]")
					}
				}
			}
		}
		if n == 0 {
			c.R.Bad(rule, k, c.M.Pos(fn.Pos()), "reference is never linked", "")
		}
		// ... and a failed lookup does not leave the link of an earlier application standing: linking runs again
		// whenever a namespace is applied (and one object may sit in several scopes), so where the function comes back
		// normally with the object not found, it has written the link (cleared it). ValidateReferences and ObjectReady
		// read the link, not the table.
		k2 := key(rule, "schema.RefSchema.ApplyNamespace", "a failed lookup never leaves the old link standing")
		stale := ""
		for _, g := range group {
			if g.Signature.Results().Len() != 0 {
				continue // a finder that hands (object, found) to its caller: the caller decides
			}
			var oks []ssa.Value
			for _, b := range g.Blocks {
				for _, in := range b.Instrs {
					if lk, ok := in.(*ssa.Lookup); ok && lk.CommaOk && lk.Referrers() != nil {
						if mt, isMap := lk.X.Type().Underlying().(*types.Map); isMap && isNamedPtr(mt.Elem(), "ObjectSchema") {
							for _, r := range *lk.Referrers() {
								if ex, isEx := r.(*ssa.Extract); isEx && ex.Index == 1 {
									oks = append(oks, ex)
								}
							}
						}
					}
				}
			}
			for _, r := range core.ReturnsOf(g) {
				notFound := false
				for _, cond := range r.Conds() {
					for _, okv := range oks {
						if core.Unwrap(cond.V) == okv && !cond.True && cond.Via == nil {
							notFound = true
						}
					}
				}
				if !notFound {
					continue
				}
				// a store into a field of the receiver on the way
				written := false
				for _, b := range g.Blocks {
					if !(b == r.Block() || b.Dominates(r.Block())) {
						continue
					}
					for _, in := range b.Instrs {
						if st, ok := in.(*ssa.Store); ok {
							if fa, ok := st.Addr.(*ssa.FieldAddr); ok && c.M.ValPath(fa.X) == g.Params[0].Name() {
								for _, cond := range core.CondsAt(b) {
									for _, okv := range oks {
										if core.Unwrap(cond.V) == okv && !cond.True {
											written = true
										}
									}
								}
							}
						}
					}
				}
				if !written && stale == "" {
					stale = c.M.InstrPos(r.Return)
				}
			}
		}
		if stale == "" {
			c.R.Ok(rule, k2, c.M.Pos(fn.Pos()), "link of a reference", "no normal way out with the object not found (it panics), or the link is written on that way")
		} else {
			c.R.Bad(rule, k2, stale, "a reference whose object is missing from the applied table keeps the link it had",
				"linking is repeated on every application of a namespace: the reference goes on denoting the object of the previous table, ValidateReferences and ObjectReady (which read the link) report it as linked, and the scope keeps accepting the old object's values")
		}
	}
	if fn := c.fn(rule, "schema.RefSchema.ValidateReferences"); fn != nil {
		k := key(rule, "schema.RefSchema.ValidateReferences", "nil iff linked")
		ok := true
		n := 0
		for _, r := range core.ReturnsOf(fn) {
			e := core.RetVal(r, 0)
			if core.IsNilConst(e) {
				n++
				linked := false
				for _, cond := range r.Conds() {
					if x, neq, isNil := core.NilCmp(cond.V); isNil && neq == cond.True && strings.HasPrefix(c.M.ValPath(x), fn.Params[0].Name()+".") {
						linked = true
					}
				}
				if !linked {
					ok = false
				}
			} else if !c.M.ProvablyNonNilError(e, r.Block()) {
				ok = false
			}
		}
		if ok && n > 0 {
			c.R.Ok(rule, k, c.M.Pos(fn.Pos()), "link check of a reference", "returns nil only under link != nil, a non-nil error otherwise")
		} else {
			c.R.Bad(rule, k, c.M.Pos(fn.Pos()), "reference link check can succeed without a link (or fail with one)", "")
		}
	}
}

func edgeCond(from, to *ssa.BasicBlock) []core.Cond {
	return core.EdgeConds(from, to)
}

// scopeTrails: field trails from type t to every field whose type is the Scope interface or *ScopeSchema.
func (c *Ctx) scopeTrails(t types.Type, prefix string, depth int, seen map[types.Type]bool) []string {
	if depth > 5 {
		return nil
	}
	switch u := t.(type) {
	case *types.Pointer:
		return c.scopeTrails(u.Elem(), prefix, depth, seen)
	case *types.Map:
		return c.scopeTrails(u.Elem(), prefix, depth, seen)
	case *types.Slice:
		return c.scopeTrails(u.Elem(), prefix, depth, seen)
	case *types.Named:
		if u.Obj().Name() == "Scope" || u.Obj().Name() == "ScopeSchema" {
			return []string{prefix}
		}
		if seen[u] {
			return nil
		}
		seen[u] = true
		defer delete(seen, u)
		st, ok := u.Underlying().(*types.Struct)
		if !ok {
			return nil
		}
		var out []string
		for i := 0; i < st.NumFields(); i++ {
			if jsonTag(st, i) == "" {
				continue
			}
			out = append(out, c.scopeTrails(st.Field(i).Type(), joinTrail(prefix, st.Field(i).Name()), depth+1, seen)...)
		}
		return out
	}
	return nil
}

func (c *Ctx) loadersLink(rule string) {
	for _, spec := range []struct{ fn, typ string }{
		{"schema.UnserializeSchema", "SchemaSchema"},
		{"schema.UnserializeScope", "ScopeSchema"},
	} {
		// the loader itself, not the worker it may only hand over to: what it passes the worker (the linking step as a
		// function value) is part of what is looked at
		fn := c.lookupFn(spec.fn)
		if fn == nil {
			c.R.Unresolved(rule, "function "+spec.fn)
			continue
		}
		obj := c.M.Types["schema"].Scope().Lookup(spec.typ)
		if obj == nil {
			c.R.Unresolved(rule, "type schema."+spec.typ)
			continue
		}
		want := c.scopeTrails(obj.Type(), "", 0, map[types.Type]bool{})
		if spec.typ == "ScopeSchema" {
			want = []string{""}
		}
		sort.Strings(want)
		// ApplySelf calls reachable from the loader, with the trails of their receivers
		got := map[string]bool{}
		unresolved := 0
		// the loader, the methods of the loaded type, and the unexported workers the loader hands over to (with the
		// functions it passes them: `worker(scope, data, (*ScopeSchema).ApplySelf)` calls ApplySelf where the worker calls
		// its parameter)
		type binding map[*ssa.Parameter]*ssa.Function
		visited := map[*ssa.Function]bool{}
		var visit func(f *ssa.Function, bound binding, depth int)
		c.paramTrail = map[*ssa.Parameter]string{}
		funcValue := func(v ssa.Value) *ssa.Function {
			for i := 0; i < 3; i++ {
				switch x := v.(type) {
				case *ssa.Function:
					return c.M.Source(x)
				case *ssa.ChangeType:
					v = x.X
				case *ssa.MakeClosure:
					if cf, ok := x.Fn.(*ssa.Function); ok {
						return c.M.Source(cf)
					}
					return nil
				default:
					return nil
				}
			}
			return nil
		}
		visit = func(f *ssa.Function, bound binding, depth int) {
			if depth > 4 || (visited[f] && len(bound) == 0 && len(c.paramTrail) == 0) {
				return
			}
			visited[f] = true
			for _, b := range f.Blocks {
				for _, in := range b.Instrs {
					call, ok := in.(*ssa.Call)
					if !ok {
						continue
					}
					name := c.calledMethodName(call)
					recv := call.Call.Value
					if !call.Call.IsInvoke() && len(call.Call.Args) > 0 {
						recv = call.Call.Args[0]
					}
					var target *ssa.Function
					if p, isParam := call.Call.Value.(*ssa.Parameter); isParam && bound[p] != nil && !call.Call.IsInvoke() {
						// a call of a function the loader passed in: the method expression takes the receiver first
						target = bound[p]
						name = target.Name()
					} else if !call.Call.IsInvoke() {
						target = core.StaticBody(&call.Call)
					}
					if name == "ApplySelf" {
						ts, ok := c.trails(recv)
						if !ok {
							unresolved++
							continue
						}
						for _, t := range ts {
							got[t] = true
						}
						continue
					}
					if target == nil || target == f {
						continue
					}
					switch {
					case strings.HasPrefix(c.M.Key(target), "schema."+spec.typ+"."):
						visit(target, nil, depth+1)
					case target.Parent() != nil:
						// a function literal that was handed in and is called here
						visit(target, nil, depth+1)
					case len(core.PlainSites(target)) > 0:
						inner := binding{}
						for i, a := range call.Call.Args {
							if i >= len(target.Params) {
								break
							}
							if fv := funcValue(a); fv != nil {
								inner[target.Params[i]] = fv
							} else if p, isParam := a.(*ssa.Parameter); isParam && bound[p] != nil {
								inner[target.Params[i]] = bound[p]
							}
						}
						// a part of the result handed to a worker: the worker's parameter stands for that part
						var set []*ssa.Parameter
						for i, a := range call.Call.Args {
							if i >= len(target.Params) {
								break
							}
							if _, had := c.paramTrail[target.Params[i]]; had {
								continue
							}
							if t, ok := c.fieldTrail(a, 0); ok && t != "" {
								c.paramTrail[target.Params[i]] = t
								set = append(set, target.Params[i])
							}
						}
						visit(target, inner, depth+1)
						for _, p := range set {
							delete(c.paramTrail, p)
						}
					}
				}
			}
		}
		visit(fn, nil, 0)
		c.paramTrail = nil
		for _, w := range want {
			desc := w
			if desc == "" {
				desc = "(the returned scope itself)"
			}
			k := key(rule, spec.fn, "links scope at "+desc)
			switch {
			case got[w]:
				c.R.Ok(rule, k, c.M.Pos(fn.Pos()), "loader links a scope-typed descendant", "ApplySelf is reached for every scope at "+desc)
			case unresolved > 0:
				c.R.Bad(rule, k, c.M.Pos(fn.Pos()), "cannot establish that the loader links the scope at "+desc, "an ApplySelf call's receiver could not be traced to a field trail (undecided = fail)")
			default:
				c.R.Bad(rule, k, c.M.Pos(fn.Pos()), "loader returns a schema whose scope at "+desc+" is never linked",
					"references inside it keep a nil link: the description is accepted, and the first Unserialize/Validate/Serialize through such a reference panics")
			}
		}
	}
}
