package rules

import (
	"go/types"
	"strings"

	"golang.org/x/tools/go/ssa"

	"verifcheck/internal/core"
)

// Roles in package atp are discovered structurally, not by name (DESIGN §2.2).

type atpRoles struct {
	clientT  *types.Named            // struct with a sync.Mutex and a pending table
	serverT  *types.Named            // struct with a *cbor.Encoder, a sync.Mutex and a closed error channel
	mutexOf  map[*types.Named]string // struct -> mutex field name (first sync.Mutex field)
	pending  string                  // client: map field whose element type carries a sync.Cond
	sigTable string                  // client: map field of channels
	runFlag  string                  // client: bool field stored true next to the `go` that starts the read loop
	doneFlag string                  // client: bool field tested and set in the closing method
	encoderC string                  // client: *cbor.Encoder field
	encoderS string                  // server: *cbor.Encoder field
	errChan  string                  // server: channel field that is closed
	readLoop *ssa.Function           // function that decodes in a loop, started by `go` from a client method
	spawnFn  *ssa.Function           // function containing that go statement
	ok       bool
}

func fieldsOf(n *types.Named) *types.Struct {
	st, _ := n.Underlying().(*types.Struct)
	return st
}

func isNamed(t types.Type, pkg, name string) bool {
	if p, ok := t.(*types.Pointer); ok {
		t = p.Elem()
	}
	n, ok := t.(*types.Named)
	return ok && n.Obj().Name() == name && n.Obj().Pkg() != nil && strings.HasSuffix(n.Obj().Pkg().Path(), pkg)
}

func (c *Ctx) roles() *atpRoles {
	if c.rolesCache != nil {
		return c.rolesCache
	}
	r := &atpRoles{mutexOf: map[*types.Named]string{}}
	c.rolesCache = r
	pkg := c.M.Types["atp"]
	if pkg == nil {
		c.R.Unresolved("ROLES", "package atp")
		return r
	}
	for _, name := range pkg.Scope().Names() {
		tn, ok := pkg.Scope().Lookup(name).(*types.TypeName)
		if !ok {
			continue
		}
		named, ok := tn.Type().(*types.Named)
		if !ok {
			continue
		}
		st := fieldsOf(named)
		if st == nil {
			continue
		}
		var mutex, enc, pend, sig, chanF string
		var bools []string
		for i := 0; i < st.NumFields(); i++ {
			f := st.Field(i)
			switch {
			case isNamed(f.Type(), "sync", "Mutex") && mutex == "":
				mutex = f.Name()
			case isNamed(f.Type(), "cbor/v2", "Encoder"):
				enc = f.Name()
			}
			if mt, ok := f.Type().Underlying().(*types.Map); ok {
				if el, ok := mt.Elem().(*types.Pointer); ok {
					if est, ok := el.Elem().Underlying().(*types.Struct); ok {
						for j := 0; j < est.NumFields(); j++ {
							if isNamed(est.Field(j).Type(), "sync", "Cond") {
								pend = f.Name()
							}
						}
					}
				}
				if _, ok := mt.Elem().Underlying().(*types.Chan); ok {
					sig = f.Name()
				}
			}
			if ch, ok := f.Type().Underlying().(*types.Chan); ok {
				if _, isStruct := ch.Elem().Underlying().(*types.Struct); isStruct {
					chanF = f.Name()
				}
			}
			if b, ok := f.Type().Underlying().(*types.Basic); ok && b.Kind() == types.Bool {
				bools = append(bools, f.Name())
			}
		}
		if mutex != "" {
			r.mutexOf[named] = mutex
		}
		if mutex != "" && pend != "" {
			r.clientT, r.pending, r.sigTable, r.encoderC = named, pend, sig, enc
		} else if mutex != "" && enc != "" && chanF != "" {
			r.serverT, r.encoderS, r.errChan = named, enc, chanF
		}
	}
	if r.clientT == nil {
		c.R.Unresolved("ROLES", "ATP client type (struct with a mutex and a table of entries carrying a sync.Cond)")
		return r
	}
	if r.serverT == nil {
		c.R.Unresolved("ROLES", "ATP server session type (struct with a mutex, a cbor encoder and an error channel)")
		return r
	}
	// read loop: a function reachable from a `go` in a client method that calls (*cbor.Decoder).Decode inside a loop
	for _, fn := range c.M.Funcs {
		if !c.isMethodOf(fn, r.clientT) && (fn.Parent() == nil || !c.isMethodOf(fn.Parent(), r.clientT)) {
			continue
		}
		for _, b := range fn.Blocks {
			for _, in := range b.Instrs {
				g, ok := in.(*ssa.Go)
				if !ok {
					continue
				}
				for _, tgt := range c.M.Callees(g.Common()) {
					for f := range c.M.Reachable([]*ssa.Function{tgt}, nil) {
						if c.decodesInLoop(f) {
							r.readLoop = f
							r.spawnFn = fn
							// the running flag: bool field of the client stored `true` in the spawning function
							for _, b2 := range fn.Blocks {
								for _, in2 := range b2.Instrs {
									if st, ok := in2.(*ssa.Store); ok {
										if fa, ok := st.Addr.(*ssa.FieldAddr); ok {
											if cst, ok := st.Val.(*ssa.Const); ok && cst.Value != nil && cst.Value.String() == "true" {
												r.runFlag = fieldName(fa.X.Type(), fa.Field)
											}
										}
									}
								}
							}
						}
					}
				}
			}
		}
	}
	if r.readLoop == nil || r.runFlag == "" {
		c.R.Unresolved("ROLES", "client read loop (goroutine decoding in a loop) and its running flag")
		return r
	}
	r.ok = true
	return r
}

func (c *Ctx) isMethodOf(fn *ssa.Function, named *types.Named) bool {
	if fn == nil || fn.Signature.Recv() == nil {
		return false
	}
	t := fn.Signature.Recv().Type()
	if p, ok := t.(*types.Pointer); ok {
		t = p.Elem()
	}
	n, ok := t.(*types.Named)
	return ok && n.Obj() == named.Obj()
}

// methodOrClosureOf: fn is a method of named or a closure (transitively) inside one.
func (c *Ctx) methodOrClosureOf(fn *ssa.Function, named *types.Named) bool {
	for f := fn; f != nil; f = f.Parent() {
		if c.isMethodOf(f, named) {
			return true
		}
	}
	return false
}

func (c *Ctx) decodesInLoop(fn *ssa.Function) bool {
	for _, b := range fn.Blocks {
		for _, in := range b.Instrs {
			if call, ok := in.(*ssa.Call); ok && strings.HasSuffix(core.StaticCalleeName(&call.Call), "cbor/v2.Decoder).Decode") {
				// in a loop: the block can reach itself
				if blockInLoop(b) {
					return true
				}
			}
		}
	}
	return false
}

func blockInLoop(b *ssa.BasicBlock) bool {
	seen := map[*ssa.BasicBlock]bool{}
	var stack []*ssa.BasicBlock
	stack = append(stack, b.Succs...)
	for len(stack) > 0 {
		x := stack[len(stack)-1]
		stack = stack[:len(stack)-1]
		if x == b {
			return true
		}
		if seen[x] {
			continue
		}
		seen[x] = true
		stack = append(stack, x.Succs...)
	}
	return false
}
