package rules

import (
	"go/constant"
	"go/token"
	"go/types"
	"sort"
	"strings"

	"golang.org/x/tools/go/ssa"

	"verifcheck/internal/core"
)

// Rules for value constraints (C02, C01).

// selfBound: v is `*recv.F` (a dereferenced bound of the receiver) where F's json tag is min or max; returns the tag.
func (c *Ctx) selfBound(fn *ssa.Function, v ssa.Value) string {
	d, ok := v.(*ssa.UnOp)
	if !ok || d.Op != token.MUL {
		return ""
	}
	who, which := c.boundRole(fn, d.X)
	if who == "self" {
		return which
	}
	return ""
}

// measure classifies the quantity compared with a bound: "len" (builtin len / reflect Len of the data), "value",
// or the name of another function (e.g. utf8.RuneCountInString).
func (c *Ctx) measure(v ssa.Value, depth int) string {
	if depth > 6 {
		return "?"
	}
	switch x := v.(type) {
	case *ssa.Convert:
		return c.measure(x.X, depth+1)
	case *ssa.ChangeType:
		return c.measure(x.X, depth+1)
	case *ssa.Call:
		if bi, ok := x.Call.Value.(*ssa.Builtin); ok {
			return bi.Name()
		}
		n := core.StaticCalleeName(&x.Call)
		if n == "(reflect.Value).Len" {
			return "len"
		}
		if n == "(reflect.Value).Int" || n == "(reflect.Value).Float" {
			return "value"
		}
		if n != "" {
			return n
		}
		return "call"
	case *ssa.Parameter:
		// a quantity that a helper is handed (`validateLength(v.Len())`): what the call sites measure, if they agree
		if srcs := core.ParamSources(x); len(srcs) > 0 {
			agreed := ""
			for _, src := range srcs {
				if src == ssa.Value(x) {
					agreed = ""
					break
				}
				m := c.measure(src, depth+1)
				if agreed != "" && agreed != m {
					agreed = ""
					break
				}
				agreed = m
			}
			if agreed != "" {
				return agreed
			}
		}
		return "value"
	case *ssa.Extract, *ssa.Phi, *ssa.TypeAssert:
		return "value"
	case *ssa.UnOp:
		return "value"
	case *ssa.Const:
		return "constant"
	}
	return "value"
}

// R-BOUNDFORM: every comparison of a quantity with a receiver bound rejects exactly below min / above max
// (inclusive bounds), measures the value itself (numbers) or its length (sized kinds), and all comparisons against
// the same bound within one type family agree on what they measure.
func (c *Ctx) ruleBoundForm(rule string) {
	type site struct {
		fn      *ssa.Function
		bin     *ssa.BinOp
		tag     string
		measure string
		typ     string
	}
	var sites []site
	reach := c.M.Reachable(c.entryData("Unserialize", "Validate", "Serialize", "UnserializeType", "ValidateType", "SerializeType", "ValidateCompatibility"), nil)
	for _, fn := range c.M.SortedFuncs(reach) {
		if len(fn.Params) == 0 || fn.Signature.Recv() == nil {
			continue
		}
		perTag := map[string]int{}
		for _, b := range fn.Blocks {
			for _, in := range b.Instrs {
				bin, ok := in.(*ssa.BinOp)
				if !ok {
					continue
				}
				switch bin.Op {
				case token.LSS, token.GTR, token.LEQ, token.GEQ:
				default:
					continue
				}
				tx, ty := c.selfBound(fn, bin.X), c.selfBound(fn, bin.Y)
				if (tx == "") == (ty == "") {
					continue // neither or both (overlap tests are C15's)
				}
				// other operand must not be a bound of another schema
				other := bin.Y
				tag := tx
				op := bin.Op
				if tx == "" {
					other, tag = bin.X, ty
				} else {
					op = flipOp(op) // normalise to  q op *bound
				}
				if d, ok := other.(*ssa.UnOp); ok && d.Op == token.MUL {
					if who, _ := c.boundRole(fn, d.X); who != "" {
						continue
					}
				}
				perTag[tag]++
				meas := c.measure(other, 0)
				fk := c.M.Key(fn)
				tname := strings.Split(fk, ".")[1]
				sites = append(sites, site{fn, bin, tag, meas, tname})
				k := key(rule, fk, sprintf("comparison #%d with %s", perTag[tag], tag))
				pos := c.M.InstrPos(bin)
				want := token.LSS
				if tag == "max" {
					want = token.GTR
				}
				if op != want {
					c.R.Bad(rule, k, pos, sprintf("bound test `q %s %s` is not the inclusive form `q %s %s`", op, tag, want, tag),
						"bounds are inclusive: a value equal to the bound must be accepted and one just beyond it rejected; this operator shifts the boundary or inverts the test")
					continue
				}
				// the true edge must reject
				if !c.trueEdgeRejects(fn, bin) {
					c.R.Bad(rule, k, pos, "the bound test does not lead to a rejection", "the branch taken when the value violates "+tag+" does not return a non-nil error")
					continue
				}
				c.R.Ok(rule, k, pos, "bound test", sprintf("q %s *%s rejects, measuring %s", want, tag, meas))
			}
		}
	}
	// NaN: a function that tests a float quantity against bounds must reject NaN explicitly (NaN < x and NaN > x are both false)
	floatFns := map[*ssa.Function]ssa.Value{}
	for _, s := range sites {
		q := s.bin.X
		if c.selfBound(s.fn, s.bin.X) != "" {
			q = s.bin.Y
		}
		if bt, ok := q.Type().Underlying().(*types.Basic); ok && bt.Info()&types.IsFloat != 0 {
			floatFns[s.fn] = q
		}
	}
	for fn, q := range floatFns {
		k := key(rule, c.M.Key(fn), "NaN excluded when a bound is set")
		ok := false
		for _, b := range fn.Blocks {
			for _, in := range b.Instrs {
				call, isCall := in.(*ssa.Call)
				if !isCall || core.StaticCalleeName(&call.Call) != "math.IsNaN" || call.Call.Args[0] != q {
					continue
				}
				// every block entered where IsNaN is known true (the If may test it directly or as part of a case
				// expression of a tagless switch) rejects
				if targets := core.EdgesWhere(fn, call, true); len(targets) > 0 {
					all := true
					ei := core.ErrorResultIndex(fn.Signature)
					for _, t := range targets {
						r, isRet := t.Instrs[len(t.Instrs)-1].(*ssa.Return)
						if !isRet || ei < 0 || !c.M.ProvablyNonNilError(core.RetVal(r, ei), t) {
							all = false
						}
					}
					if all {
						ok = true
					}
				}
			}
		}
		if ok {
			c.R.Ok(rule, k, c.M.Pos(fn.Pos()), "float bounds and NaN", "math.IsNaN of the compared quantity rejects")
		} else {
			c.R.Bad(rule, k, c.M.Pos(fn.Pos()), "float bound tests let NaN through", "NaN compares false with every bound, so `q < min` and `q > max` both fail and NaN is accepted by a bounded schema")
		}
	}
	// sibling agreement on the measure per (type, tag)
	groups := map[string]map[string][]site{}
	for _, s := range sites {
		g := s.typ + "." + s.tag
		if groups[g] == nil {
			groups[g] = map[string][]site{}
		}
		groups[g][s.measure] = append(groups[g][s.measure], s)
	}
	var gnames []string
	for g := range groups {
		gnames = append(gnames, g)
	}
	sort.Strings(gnames)
	for _, g := range gnames {
		k := key(rule, "schema."+g, "all comparisons measure the same quantity")
		if len(groups[g]) == 1 {
			for m, ss := range groups[g] {
				c.R.Ok(rule, k, c.M.InstrPos(ss[0].bin), "sibling agreement on the measured quantity", sprintf("%d comparisons, all measure %s", len(ss), m))
			}
			continue
		}
		var desc []string
		var first site
		for m, ss := range groups[g] {
			desc = append(desc, sprintf("%s in %s", m, c.M.Key(ss[0].fn)))
			first = ss[0]
		}
		sort.Strings(desc)
		c.R.Bad(rule, k, c.M.InstrPos(first.bin), "the same bound is tested against different quantities", strings.Join(desc, " vs ")+
			": Unserialize / Validate / Serialize (and the typed variants) no longer enforce the same constraint, e.g. byte length on one path and rune count on another")
	}
	c.R.Floor(rule, 20)
}

// trueEdgeRejects: every return reachable from the true successor of the If on bin (without leaving through the
// false side) carries a provably non-nil error. We check the immediate region: the true successor block.
func (c *Ctx) trueEdgeRejects(fn *ssa.Function, bin *ssa.BinOp) bool {
	ei := core.ErrorResultIndex(fn.Signature)
	if ei < 0 {
		return false
	}
	// the blocks entered where the comparison is known true (the If may test it directly, negated, compared with the
	// constant true, or as the last operand of a && chain evaluated as a value - a tagless switch case)
	targets := core.EdgesWhere(fn, bin, true)
	if len(targets) == 0 {
		return false
	}
	for _, t := range targets {
		r, ok := t.Instrs[len(t.Instrs)-1].(*ssa.Return)
		if !ok || !c.M.ProvablyNonNilError(core.RetVal(r, ei), t) {
			return false
		}
	}
	return true
}

// R-MUSTUSE: for every schema type and each of its constraint fields (json min, max, pattern, values), every
// accepting return of Unserialize / Validate / Serialize and their typed variants is preceded on all paths by a read
// of that field, directly or in a callee on the same receiver that has this property itself.
func (c *Ctx) ruleMustUse(rule string) {
	fields := []string{"min", "max", "pattern", "values"}
	ops := []string{"Unserialize", "Validate", "Serialize", "UnserializeType", "ValidateType", "SerializeType"}
	memo := map[string]int{}
	n := 0
	for _, named := range c.serializableTypes() {
		tags := jsonTagsOf(named)
		for _, f := range fields {
			fv := tags[f]
			if fv == nil {
				continue
			}
			switch fv.Type().Underlying().(type) {
			case *types.Pointer, *types.Map:
			default:
				continue // a child schema (map values), not a constraint
			}
			for _, op := range ops {
				fn := c.methodFn(named, op)
				if fn == nil || fn.Blocks == nil {
					continue
				}
				n++
				k := key(rule, "schema."+named.Obj().Name()+"."+op, "constraint "+f+" consulted on every accepting path")
				if c.mustRead(fn, fv, memo, 0) {
					c.R.Ok(rule, k, c.M.Pos(fn.Pos()), "constraint enforcement", "every accepting return is preceded by a read of the field (directly or through a callee on the same receiver)")
				} else {
					c.R.Bad(rule, k, c.M.Pos(fn.Pos()), named.Obj().Name()+"."+op+" can accept without consulting "+f,
						"some path returns a nil error without having read the "+f+" constraint: values violating it are accepted on this operation while the sibling operations reject them")
				}
			}
		}
	}
	if n == 0 {
		c.R.Unresolved(rule, "constraint fields of schema types")
	}
	c.R.Floor(rule, 40)
}

// mustRead: every return of fn whose error may be nil is preceded on all paths by a read of field fv of the receiver
// (param 0, or an embedded part of it), or by a call on the same receiver to a function with that property.
func (c *Ctx) mustRead(fn *ssa.Function, fv *types.Var, memo map[string]int, depth int) bool {
	k := c.M.Key(fn) + "|" + fv.Name()
	switch memo[k] {
	case 1:
		return true
	case 2:
		return false
	case 3:
		return true // optimistic on recursion
	}
	if depth > 8 || len(fn.Params) == 0 {
		return false
	}
	memo[k] = 3
	recv := fn.Params[0]
	isRecvDerived := func(v ssa.Value) bool {
		p := c.M.ValPath(v)
		return p == recv.Name() || strings.HasPrefix(p, recv.Name()+".") || strings.HasPrefix(p, "&"+recv.Name())
	}
	gen := func(in ssa.Instruction) bool {
		switch x := in.(type) {
		case *ssa.FieldAddr:
			if structField(x.X.Type(), x.Field) == fv.Origin() && isRecvDerived(x.X) {
				return true
			}
		case *ssa.Field:
			if structField(x.X.Type(), x.Field) == fv.Origin() && isRecvDerived(x.X) {
				return true
			}
		case *ssa.Call:
			if x.Call.IsInvoke() || len(x.Call.Args) == 0 {
				return false
			}
			if !isRecvDerived(x.Call.Args[0]) {
				return false
			}
			cs := c.M.Callees(&x.Call)
			if len(cs) == 1 && cs[0] != fn && cs[0].Signature.Recv() != nil {
				return c.mustRead(cs[0], fv, memo, depth+1)
			}
		}
		return false
	}
	nb := len(fn.Blocks)
	inS := make([]bool, nb)
	outS := make([]bool, nb)
	for i := range inS {
		inS[i], outS[i] = true, true
	}
	for iter, changed := 0, true; changed && iter < 50; iter++ {
		changed = false
		for _, b := range fn.Blocks {
			st := b.Index != 0 && len(b.Preds) > 0
			for _, p := range b.Preds {
				st = st && outS[p.Index]
			}
			if st != inS[b.Index] {
				inS[b.Index] = st
				changed = true
			}
			o := st
			for _, in := range b.Instrs {
				if !o && gen(in) {
					o = true
				}
			}
			if o != outS[b.Index] {
				outS[b.Index] = o
				changed = true
			}
		}
	}
	ei := core.ErrorResultIndex(fn.Signature)
	ok := true
	for _, r := range core.ReturnsOf(fn) {
		if ei >= 0 && c.M.RetNonNil(r, ei) {
			continue
		}
		st := inS[r.Block().Index]
		for _, in := range r.Before() {
			if !st && gen(in) {
				st = true
			}
		}
		// `return x, callee(...)`: the verdict is the callee's
		if !st && ei >= 0 {
			if call, isCall := core.RetVal(r, ei).(*ssa.Call); isCall && gen(call) {
				st = true
			}
		}
		if !st {
			ok = false
		}
	}
	if ok {
		memo[k] = 1
	} else {
		memo[k] = 2
	}
	return ok
}

// R-NARROW: in the input mappers, every conversion that can lose range (unsigned / float -> int64) and whose
// result can be returned is dominated by a range test or followed by a round-trip equality test that rejects.
func (c *Ctx) ruleNarrow(rule string) {
	n := 0
	// the mappers, and the helpers of the package they hand a part of the conversion to
	var fns []*ssa.Function
	inSet := map[*ssa.Function]bool{}
	for _, key0 := range []string{"schema.intInputMapper", "schema.floatInputMapper"} {
		if fn := c.fn(rule, key0); fn != nil && !inSet[fn] {
			inSet[fn] = true
			fns = append(fns, fn)
		}
	}
	for i := 0; i < len(fns) && len(fns) < 12; i++ {
		for _, b := range fns[i].Blocks {
			for _, in := range b.Instrs {
				if call, ok := in.(*ssa.Call); ok {
					if h := core.StaticBody(&call.Call); h != nil && h.Pkg == fns[i].Pkg && h.Signature.Recv() == nil && !inSet[h] && len(h.Blocks) > 0 {
						// only helpers that return a number (and possibly an error): parts of the conversion
						res := h.Signature.Results()
						if res.Len() >= 1 && res.Len() <= 2 {
							if bt, ok := res.At(0).Type().Underlying().(*types.Basic); ok && bt.Info()&types.IsNumeric != 0 {
								inSet[h] = true
								fns = append(fns, h)
							}
						}
					}
				}
			}
		}
	}
	for _, fn := range fns {
		key0 := c.M.Key(fn)
		idx := 0
		for _, b := range fn.Blocks {
			for _, in := range b.Instrs {
				cv, ok := in.(*ssa.Convert)
				if !ok {
					continue
				}
				from, ok1 := cv.X.Type().Underlying().(*types.Basic)
				to, ok2 := cv.Type().Underlying().(*types.Basic)
				if !ok1 || !ok2 || to.Kind() != types.Int64 {
					continue
				}
				lossy := false
				switch from.Kind() {
				case types.Uint64, types.Uint, types.Uintptr, types.Float64, types.Float32:
					lossy = true
				}
				if !lossy || !reachesReturn(cv) {
					continue
				}
				idx++
				n++
				k := key(rule, key0, sprintf("%s -> int64 #%d", from.Name(), idx))
				pos := c.M.InstrPos(cv)
				// (a) dominating range test: `v > MaxInt64` known false
				guarded := false
				for _, cond := range core.CondsAt(b) {
					if bin, ok := cond.V.(*ssa.BinOp); ok && bin.X == cv.X && bin.Op == token.GTR && !cond.True {
						if cst, ok := bin.Y.(*ssa.Const); ok && cst.Value != nil && cst.Value.Kind() == constant.Int {
							guarded = true
						}
					}
				}
				// (b) round trip: a comparison v != T(i) whose true edge rejects
				if !guarded {
					for _, r := range *cv.Referrers() {
						back, ok := r.(*ssa.Convert)
						if !ok {
							continue
						}
						for _, r2 := range *back.Referrers() {
							bin, ok := r2.(*ssa.BinOp)
							if !ok || bin.Op != token.NEQ {
								continue
							}
							if (bin.X == cv.X && bin.Y == ssa.Value(back)) || (bin.Y == cv.X && bin.X == ssa.Value(back)) {
								if c.trueEdgeRejects(fn, bin) {
									guarded = true
								}
							}
						}
					}
				}
				if guarded {
					c.R.Ok(rule, k, pos, "narrowing conversion in an input mapper", "range-tested before, or round-trip-tested after with a rejecting mismatch branch")
				} else {
					c.R.Bad(rule, k, pos, "narrowing conversion whose result is returned unchecked",
						"values outside the int64 range (2^63 and above, +/-Inf) wrap or saturate and are returned as if they were the denoted number; a max bound can be bypassed")
				}
			}
		}
	}
	if n == 0 {
		c.R.Unresolved(rule, "narrowing conversions in the input mappers")
	}
	c.R.Floor(rule, 3)
}

func reachesReturn(v ssa.Value) bool {
	seen := map[ssa.Value]bool{}
	var walk func(x ssa.Value, d int) bool
	walk = func(x ssa.Value, d int) bool {
		if seen[x] || d > 8 {
			return false
		}
		seen[x] = true
		refs := x.Referrers()
		if refs == nil {
			return false
		}
		for _, r := range *refs {
			switch y := r.(type) {
			case *ssa.Return:
				return true
			case *ssa.Phi:
				if walk(y, d+1) {
					return true
				}
			case *ssa.MakeInterface:
				if walk(y, d+1) {
					return true
				}
			case *ssa.Store:
				if al, ok := y.Addr.(*ssa.Alloc); ok {
					for _, r2 := range *al.Referrers() {
						if ld, ok := r2.(*ssa.UnOp); ok && walk(ld, d+1) {
							return true
						}
					}
				}
			}
		}
		return false
	}
	return walk(v, 0)
}

// R-MEMBER: enum membership - the accepting exit of ValidateType is control-dependent on equality between the datum
// and a key of the values table; pattern - a failed MatchString rejects.
func (c *Ctx) ruleMember(rule string) {
	if fn := c.fn(rule, "schema.EnumSchema.ValidateType"); fn != nil {
		k := key(rule, "schema.EnumSchema.ValidateType", "accept iff the datum equals a key of the values table")
		ei := core.ErrorResultIndex(fn.Signature)
		ok, n := true, 0
		for _, r := range core.ReturnsOf(fn) {
			if c.M.RetNonNil(r, ei) {
				continue
			}
			n++
			found := false
			for _, cond := range r.Conds() {
				// the same test written as a lookup: `_, found := values[data]` found true
				if ex, isEx := cond.V.(*ssa.Extract); isEx && ex.Index == 1 && cond.True {
					if lk, isLk := ex.Tuple.(*ssa.Lookup); isLk && lk.CommaOk && strings.HasSuffix(c.M.ValPath(lk.X), ".ValidValuesMap") &&
						viaArg(cond, lk.Index) == ssa.Value(fn.Params[len(fn.Params)-1]) {
						found = true
					}
				}
				bin, isBin := cond.V.(*ssa.BinOp)
				if !isBin || !((bin.Op == token.EQL) == cond.True) || (bin.Op != token.EQL && bin.Op != token.NEQ) {
					continue
				}
				isKey := func(v ssa.Value) bool {
					e, ok := v.(*ssa.Extract)
					if !ok || e.Index != 1 {
						return false
					}
					nx, ok := e.Tuple.(*ssa.Next)
					if !ok {
						return false
					}
					rg, ok := nx.Iter.(*ssa.Range)
					return ok && strings.HasSuffix(c.M.ValPath(rg.X), ".ValidValuesMap")
				}
				// (the test may sit in a helper of the receiver that is handed the datum: its parameter stands for it)
				data := fn.Params[len(fn.Params)-1]
				if (isKey(bin.X) && viaArg(cond, bin.Y) == ssa.Value(data)) || (isKey(bin.Y) && viaArg(cond, bin.X) == ssa.Value(data)) {
					found = true
				}
			}
			if !found {
				ok = false
			}
		}
		if ok && n > 0 {
			c.R.Ok(rule, k, c.M.Pos(fn.Pos()), "enum membership", "every accepting return is controlled by `key == data` for a key of the values table (or by a successful lookup of data in it)")
		} else {
			c.R.Bad(rule, k, c.M.Pos(fn.Pos()), "enum accepts without matching a declared value", "an accepting return is not controlled by equality with a key of the values table (inverted or dropped membership test)")
		}
	}
	// pattern polarity
	n := 0
	for _, fn := range c.M.Funcs {
		if !strings.HasPrefix(c.M.Key(fn), "schema.StringSchema.") {
			continue
		}
		for _, b := range fn.Blocks {
			for _, in := range b.Instrs {
				call, ok := in.(*ssa.Call)
				if !ok || core.StaticCalleeName(&call.Call) != "(*regexp.Regexp).MatchString" {
					continue
				}
				n++
				k := key(rule, c.M.Key(fn), "a failed pattern match rejects")
				okPol := false
				// find the If whose condition derives from the call (possibly negated) and check the no-match edge rejects
				for _, r := range *call.Referrers() {
					var cond ssa.Value = call
					neg := false
					if u, ok := r.(*ssa.UnOp); ok && u.Op == token.NOT {
						cond, neg = u, true
						_ = cond
						for _, r2 := range *u.Referrers() {
							if ifi, ok := r2.(*ssa.If); ok {
								okPol = c.edgeRejects(fn, ifi.Block(), neg)
							}
						}
					}
					if ifi, ok := r.(*ssa.If); ok {
						okPol = c.edgeRejects(fn, ifi.Block(), false) == false && c.edgeRejectsIdx(fn, ifi.Block(), 1)
					}
				}
				if okPol {
					c.R.Ok(rule, k, c.M.InstrPos(call), "pattern enforcement", "the branch taken when MatchString is false returns a non-nil error")
				} else {
					c.R.Bad(rule, k, c.M.InstrPos(call), "pattern test with the wrong polarity or without rejection", "strings that do not match the pattern are accepted (or matching ones rejected)")
				}
			}
		}
	}
	if n == 0 {
		c.R.Unresolved(rule, "pattern match in StringSchema")
	}
}

// edgeRejects: for an If block whose condition is `!match`, the true successor rejects.
func (c *Ctx) edgeRejects(fn *ssa.Function, b *ssa.BasicBlock, condIsNegatedMatch bool) bool {
	if !condIsNegatedMatch {
		return false
	}
	return c.edgeRejectsIdx(fn, b, 0)
}

func (c *Ctx) edgeRejectsIdx(fn *ssa.Function, b *ssa.BasicBlock, idx int) bool {
	t := b.Succs[idx]
	ei := core.ErrorResultIndex(fn.Signature)
	if r, ok := t.Instrs[len(t.Instrs)-1].(*ssa.Return); ok && ei >= 0 {
		return c.M.ProvablyNonNilError(core.RetVal(r, ei), t)
	}
	return false
}

// R-BOOLWORDS: the boolean word table contains the fourteen documented words with the documented polarity.
func (c *Ctx) ruleBoolWords(rule string) {
	want := map[string]bool{"1": true, "yes": true, "y": true, "on": true, "true": true, "enable": true, "enabled": true,
		"0": false, "no": false, "n": false, "off": false, "false": false, "disable": false, "disabled": false}
	init := c.M.FuncByKey["schema.init"]
	g, _ := c.M.SSA["schema"].Members["boolStringValues"].(*ssa.Global)
	if init == nil || g == nil {
		c.R.Unresolved(rule, "boolean word table")
		return
	}
	got := map[string]bool{}
	var mm *ssa.MakeMap
	for _, b := range init.Blocks {
		for _, in := range b.Instrs {
			if st, ok := in.(*ssa.Store); ok && st.Addr == ssa.Value(g) {
				mm, _ = st.Val.(*ssa.MakeMap)
			}
		}
	}
	if mm == nil {
		c.R.Unresolved(rule, "literal initialiser of the boolean word table")
		return
	}
	for _, r := range *mm.Referrers() {
		if mu, ok := r.(*ssa.MapUpdate); ok {
			k, ok1 := core.ConstString(mu.Key)
			v, ok2 := mu.Value.(*ssa.Const)
			if ok1 && ok2 && v.Value != nil && v.Value.Kind() == constant.Bool {
				got[k] = constant.BoolVal(v.Value)
			}
		}
	}
	var words []string
	for w := range want {
		words = append(words, w)
	}
	sort.Strings(words)
	for _, w := range words {
		k := key(rule, "schema.boolStringValues", "word \""+w+"\"")
		v, has := got[w]
		switch {
		case !has:
			c.R.Bad(rule, k, c.M.Pos(g.Pos()), "documented boolean word \""+w+"\" is missing from the table", "")
		case v != want[w]:
			c.R.Bad(rule, k, c.M.Pos(g.Pos()), "boolean word \""+w+"\" has the wrong polarity", "")
		default:
			c.R.Ok(rule, k, c.M.Pos(g.Pos()), "boolean word", sprintf("%q -> %v", w, v))
		}
	}
}

// R-ERRDROP: no error result of a call inside the schema operations is discarded.
func (c *Ctx) ruleErrDrop(rule string, fns map[*ssa.Function]bool) {
	n := 0
	for _, fn := range c.M.SortedFuncs(fns) {
		idx := 0
		for _, b := range fn.Blocks {
			for _, in := range b.Instrs {
				call, ok := in.(*ssa.Call)
				if !ok {
					continue
				}
				sig := call.Call.Signature()
				ei := core.ErrorResultIndex(sig)
				if ei < 0 || len(c.M.Callees(&call.Call)) == 0 {
					continue
				}
				n++
				used := false
				if sig.Results().Len() == 1 {
					used = call.Referrers() != nil && len(*call.Referrers()) > 0
				} else {
					for _, r := range *call.Referrers() {
						if e, ok := r.(*ssa.Extract); ok && e.Index == ei && e.Referrers() != nil && len(*e.Referrers()) > 0 {
							used = true
						}
					}
				}
				if used {
					continue
				}
				idx++
				k := key(rule, c.M.Key(fn), sprintf("dropped error #%d of %s", idx, c.callDesc(call)))
				c.R.Bad(rule, k, c.M.InstrPos(call), "error result of "+c.callDesc(call)+" is discarded", "a rejection by the callee does not influence the verdict of this operation")
			}
		}
	}
	c.R.Note("%s: %d error-returning repo calls examined, none may be dropped", rule, n)
	if n > 0 {
		c.R.Ok(rule, key(rule, "summary", "error results of repo calls are consumed"), "-", "error discipline", sprintf("%d call sites examined", n))
	}
}
