package rules

import (
	"go/types"

	"golang.org/x/tools/go/ssa"
)

// scopeData: functions reachable from the data-facing API, outside recover scopes.
func (c *Ctx) scopeData() map[*ssa.Function]bool {
	return c.reachableOutsideRecover(c.entryData())
}

// scopeAll: every source function of the SDK module.
func (c *Ctx) scopeAll() map[*ssa.Function]bool {
	out := map[*ssa.Function]bool{}
	for _, f := range c.M.Funcs {
		out[f] = true
	}
	return out
}

// scopePkg: every source function of one package of the SDK module.
func (c *Ctx) scopePkg(names ...string) map[*ssa.Function]bool {
	out := map[*ssa.Function]bool{}
	for _, f := range c.M.Funcs {
		for _, n := range names {
			if f.Pkg == c.M.SSA[n] {
				out[f] = true
			}
		}
	}
	return out
}

// allMutexFields: every sync.Mutex field of the struct, in declaration order.
func allMutexFields(named *types.Named) []string {
	var out []string
	if st, ok := named.Underlying().(*types.Struct); ok {
		for i := 0; i < st.NumFields(); i++ {
			if isNamed(st.Field(i).Type(), "sync", "Mutex") {
				out = append(out, st.Field(i).Name())
			}
		}
	}
	return out
}

// lockTargets: every struct of the given packages with a sync.Mutex field (mapped to its first mutex field).
func (c *Ctx) lockTargets(pkgs ...string) map[*types.Named]string {
	out := map[*types.Named]string{}
	for _, pn := range pkgs {
		pkg := c.M.Types[pn]
		if pkg == nil {
			continue
		}
		for _, name := range pkg.Scope().Names() {
			tn, ok := pkg.Scope().Lookup(name).(*types.TypeName)
			if !ok {
				continue
			}
			named, ok := tn.Type().(*types.Named)
			if !ok {
				continue
			}
			st, ok := named.Underlying().(*types.Struct)
			if !ok {
				continue
			}
			for i := 0; i < st.NumFields(); i++ {
				if isNamed(st.Field(i).Type(), "sync", "Mutex") {
					out[named] = st.Field(i).Name()
					break
				}
			}
		}
	}
	return out
}

var pureAPI = []string{"Unserialize", "Validate", "Serialize", "ValidateCompatibility", "UnserializeType", "ValidateType", "SerializeType", "ReflectedType", "TypeID"}

const wellFormed = "well-formed schemas (DESIGN 3.0.5): A1 built by the public constructors and linked, so cycles pass only through RefSchema's link; " +
	"A2 table entries declared by the schema are non-nil; A3 a default does not re-enter the recursion it belongs to; A4 user callbacks are the user's responsibility"

func init() {
	register(&PropSpec{
		ID: "C01",
		Explanation: "Decided: R-FITS - the struct mapper converts a validated number into the field's type only behind a check that consults OverflowInt / OverflowUint / OverflowFloat and was given the type converted into (same Elem depth of the Type / Elem chain) (a float32 field still rounds: not decided). R-SUPPLIEDNONNIL - Unserialize of a list / map schema never hands out a nil container for a supplied value (nil means 'not supplied' in a struct field); R-CODEC also requires duplicate map keys to be refused by the transport. Decided R-CODEC - the transport's CBOR modes are as wide as the schemas; R-DISCPRESENT / R-STOREALL - the typed discriminator is stored on every accepting Unserialize path, every way round the struct mapper stores the supplied value. (structural parts of the round trip): R-DELEG - for every type with typed entry points each pair (XType, X) is a delegation on the same receiver, or both " +
			"members consult every constraint field on all accepting paths; R-BOUNDFORM - the typed and untyped paths test the same quantity against the same bound in the " +
			"same inclusive form; R-DYNTYPE - the non-error result of every Serialize / SerializeType is, by interprocedural dynamic-type provenance, a wire type " +
			"(int64, float64, string, bool, []any, map[any]any, map[string]any; results produced by reflection are listed, not decided); R-ASSERT - the unchecked " +
			"assertions in the typed wrappers are justified; R-SYMM - the one-of hands the member the data minus the discriminator on all operations (copy, only when not " +
			"inlined), never accepts without the member's verdict, and re-attaches the discriminator to results; R-CONVSIB - the four native-to-wire converters share the " +
			"CanConvert-guarded shape. R-DISCTYPE - every store under the discriminator key has the one-of's key type (what Validate asserts); R-CHILDREN - every loop over a container's data calls a data method of every child-schema field on every way round. NOT decided: value equality of round trips, idempotence, CBOR width normalisation, the treat-empty-as-default identification.",
		Rules: []func(*Ctx){
			func(c *Ctx) { c.ruleFits("R-FITS") },
			func(c *Ctx) { c.ruleSuppliedNonNil("R-SUPPLIEDNONNIL") },
			func(c *Ctx) { c.ruleCodec("R-CODEC"); c.R.Floor("R-CODEC", 3) },
			func(c *Ctx) { c.ruleStoreAll("R-STOREALL") },
			func(c *Ctx) { c.ruleDiscPresent("R-DISCPRESENT"); c.R.Floor("R-DISCPRESENT", 2) },
			func(c *Ctx) { c.ruleChildren("R-CHILDREN"); c.R.Floor("R-CHILDREN", 8) },
			func(c *Ctx) { c.ruleDiscType("R-DISCTYPE") },
			func(c *Ctx) { c.ruleDeleg("R-DELEG") },
			func(c *Ctx) { c.ruleBoundForm("R-BOUNDFORM") },
			func(c *Ctx) { c.ruleWireTypes("R-DYNTYPE") },
			func(c *Ctx) {
				fns := map[*ssa.Function]bool{}
				for _, f := range c.entryData("UnserializeType", "ValidateType", "SerializeType", "Serialize") {
					fns[f] = true
				}
				c.ruleAssert("R-ASSERT", fns)
				c.R.Floor("R-ASSERT", 8)
			},
			func(c *Ctx) { c.ruleOneOfSymm("R-SYMM") },
			func(c *Ctx) { c.ruleConverters("R-CONVSIB") },
		},
	})
	register(&PropSpec{
		ID: "C03",
		Explanation: "Decided: R-EMPTYFLAG - where package schema branches on reflect.Value.IsZero(), what is done on the zero side is done only behind a flag of the property read as true (emptyIsDefault, Disabled) or for a kind that has nil: 0 and \"\" are discriminator values like any other. Decided: R-DISCROUTE - where Validate / Serialize choose the member for a struct value by its Go type, the choice is made only with DiscriminatorInlined false or under a branch on what was read out of the value (its discriminator); R-OBJ clause - a default is stored for an unset property only with the property's Disabled flag known false (tested there, or implied by the outcome of the helper that works the value out). Decided: R-JSONNUM - default values are not decoded into an untyped value without UseNumber; R-SUBOBJRULES - the value built for an unset sub-object is stored only where its presence rules hold. Decided: R-SUPPLIEDNONNIL - the producer side of R-UNSETNIL (see C01). Decided: R-UNSETNIL - presence of struct-mapped properties: nil pointer / slice / map and the zero value of a disabled property are unset, unexported fields are refused; R-REBUILT - constructor-only fields are never used without a test for the unfilled case. R-OBJ - the presence-rule evaluator is reached on every accepting path of ObjectSchema Unserialize / Validate / Serialize (map-based and struct-mapped " +
			"branches); its set/unset dispatch, and the rejects for required, required_if, required_if_not and conflicts have the declared polarity; undeclared and non-string " +
			"keys are rejected wherever supplied keys are walked; a value derived from GetDefaults() is stored only under a failed lookup of the same key and only with the Disabled flag of the property that key names found false (a supplied value is " +
			"never overridden); a disabled property is never unserialized and the object code cannot bypass PropertySchema.Unserialize; the inline shorthand is guarded by " +
			"len(properties) == 1 (R-MAPORDER/R-EXPLICIT in C04/C12); R-SYMM - one-of dispatch: the member's verdict decides on every operation, data is stripped of a " +
			"non-inlined discriminator by copy, results get it back. R-NOCOERCE - as in C02 (Validate / Serialize do not coerce discriminators or fields). R-UNSETNIL - the presence function of struct-mapped objects can report a nil pointer, slice and map field as unset (what Unserialize leaves for an absent property). R-DISABLED - every PropertySchema method that hands data to its type (Unserialize, Validate, Serialize, data-mode ValidateCompatibility) returns a possibly-nil error only where Disabled is known false (branch on the flag, or a helper whose nil result implies it). NOT decided: the full truth table over interacting rule graphs and presence subsets.",
		Rules: []func(*Ctx){
			func(c *Ctx) { c.ruleJSONNum("R-JSONNUM") },
			func(c *Ctx) { c.ruleDiscRoute("R-DISCROUTE"); c.R.Floor("R-DISCROUTE", 1) },
			func(c *Ctx) { c.ruleEmptyFlag("R-EMPTYFLAG"); c.R.Floor("R-EMPTYFLAG", 2) },
			func(c *Ctx) { c.ruleSubObjRules("R-SUBOBJRULES") },
			func(c *Ctx) { c.ruleSuppliedNonNil("R-SUPPLIEDNONNIL") },
			func(c *Ctx) { c.ruleDiscPresent("R-DISCPRESENT"); c.R.Floor("R-DISCPRESENT", 2) },
			func(c *Ctx) { c.ruleRebuilt("R-REBUILT"); c.R.Floor("R-REBUILT", 5) },
			func(c *Ctx) { c.ruleNoCoerce("R-NOCOERCE"); c.R.Floor("R-NOCOERCE", 3) },
			func(c *Ctx) { c.ruleObjectRules("R-OBJ") },
			func(c *Ctx) { c.ruleOneOfSymm("R-SYMM") },
			func(c *Ctx) { c.ruleDisabled("R-DISABLED") },
			func(c *Ctx) { c.ruleUnsetNil("R-UNSETNIL"); c.R.Floor("R-UNSETNIL", 3) },
			func(c *Ctx) { c.ruleErrDrop("R-ERRDROP", c.scopePkg("schema")) },
		},
	})
	register(&PropSpec{
		ID: "C02",
		Explanation: "Decided: R-PARSEERR - every use of the number strconv.ParseFloat / ParseInt / ParseUint / Atoi hands back lies where the error of the same call is known to be nil (or number and error are handed on together): a range error's infinity or largest value never stands for the text. R-SUMALL (see C16) runs here too. Decided: R-F32TEXT - a float32 that is widened to float64 reaches strconv.FormatFloat only with the bit size 32 (the text that the string constraints are checked against is the shortest text of the float32). Decided: R-OVERFLOW - every int64 multiplication / addition on a parsed count in the unit parser is dominated by an overflow pre-check (a unit string that totals 2^63 or more is not accepted as a wrapped-around integer). Decided: R-SERVAL - a Serialize that asks its own Validate constructs no rejection that this Validate does not construct as well. Decided: R-MAPORDER (converted-key clause) - no insertion under a converted key without a duplicate test, so size bounds checked on the source hold for the result. Decided: R-CONVKIND - conversions of values in Validate / Serialize only between agreeing kinds, unsigned values above MaxInt64 excluded; R-FMTPREC - no float becomes a string value through a fixed-precision verb. R-MUSTUSE - every declared constraint (json min, max, pattern, values) is read on every accepting path of Unserialize, Validate, Serialize and the typed " +
			"variants of every schema type (interprocedural must-analysis over callees on the same receiver); R-BOUNDFORM - each comparison with a bound is the inclusive form " +
			"(reject iff q < min / q > max), its violating branch returns an error, the measured quantity is the value (numbers) or its length (sized kinds) and all " +
			"comparisons of one type agree on it; float tests exclude NaN; R-NARROW - lossy conversions to int64 in the input mappers are range- or round-trip-guarded; " +
			"R-MEMBER - enum acceptance is controlled by equality with a table key, a failed pattern match rejects; R-BOOLWORDS - the fourteen documented words with their " +
			"polarity; R-ERRDROP - no error of a repo call is discarded. R-CHILDREN - as in C01; R-NOCOERCE - no text-parsing conversion (strconv.Parse*, unit parser) is reachable from Validate / Serialize / ValidateType / SerializeType (edges behind a reflect-kind gate that excludes strings are cut; edges into ValidateCompatibility are not followed - assumption). R-CONVKIND - every reflect Convert to a statically known scalar type reachable from Validate / Serialize happens only for source kinds that agree with the target (integer widths among themselves, integer or float to float, otherwise the same kind): established by Kind() comparisons or by a kind predicate of the repo that is evaluated here over all pairs of kinds. NOT decided: that the lenient conversions denote the right number; unit arithmetic (C16).",
		Rules: []func(*Ctx){
			func(c *Ctx) { c.ruleF32Text("R-F32TEXT") },
			func(c *Ctx) { c.ruleParseErr("R-PARSEERR"); c.R.Floor("R-PARSEERR", 5) },
			func(c *Ctx) { c.ruleSumAll("R-SUMALL"); c.R.Floor("R-SUMALL", 2) },
			func(c *Ctx) { c.ruleSerVal("R-SERVAL") },
			func(c *Ctx) { c.ruleOverflow("R-OVERFLOW"); c.R.Floor("R-OVERFLOW", 2) },
			func(c *Ctx) { c.ruleFmtPrec("R-FMTPREC") },
			func(c *Ctx) { c.ruleGrammar("R-GRAMMAR"); c.R.Floor("R-GRAMMAR", 2) },
			func(c *Ctx) { c.ruleConvKind("R-CONVKIND"); c.R.Floor("R-CONVKIND", 4) },
			func(c *Ctx) { c.ruleNoCoerce("R-NOCOERCE"); c.R.Floor("R-NOCOERCE", 3) },
			func(c *Ctx) { c.ruleChildren("R-CHILDREN"); c.R.Floor("R-CHILDREN", 8) },
			func(c *Ctx) { c.ruleBoundForm("R-BOUNDFORM") },
			func(c *Ctx) { c.ruleMustUse("R-MUSTUSE") },
			func(c *Ctx) { c.ruleConvertedKeys("R-MAPORDER", c.M, c.scopePkg("schema")); c.R.Floor("R-MAPORDER", 2) },
			func(c *Ctx) { c.ruleNarrow("R-NARROW") },
			func(c *Ctx) { c.ruleMember("R-MEMBER") },
			func(c *Ctx) { c.ruleBoolWords("R-BOOLWORDS") },
			func(c *Ctx) { c.ruleErrDrop("R-ERRDROP", c.scopePkg("schema")) },
		},
	})
	register(&PropSpec{
		ID: "C04",
		Explanation: "Decided: R-FIELDIFACE - Interface() on a value read out of a struct field through reflection in the same function (also through Elem / Convert / Index) only where CanInterface() was found true for it, or inside a recover scope: a property mapped to an unexported field yields an error, not a reflect panic. R-TERM exception E-DEFAULTGUARD clause (f): a value of the schema is put into the map Unserialize works from only behind the failed comma-ok lookup of that key ('unset' means to the re-seeding code what it means to the guard's walk). Decided: R-STABLEID - no accessor hands out a copy of an object where the original has an address (the walks that bound the recursion tell objects apart by address); R-TERM exception E-DEFAULTGUARD now requires the guard walk to share with Unserialize the function that works out the value of an unset property and the predicate of the single-property shorthand. Decided: R-KINDPRE - every kind-restricted method of reflect.Value (Len, Index, MapKeys, MapIndex, MapRange, SetMapIndex, NumField, Field*, Elem, IsNil, Int, Uint, Float, Bool) is called on a Value whose own kind is known to fit (provenance, a Kind() comparison on every path, the callers, the callee whose result it wraps), 6 exceptions E-OWNTYPE / E-PROBE; R-REFLECT (i) - Set / SetMapIndex with a dynamically typed value only behind AssignableTo, Convert or a recover; R-TERM exception E-DEFAULTGUARD - the values of the schema fed back into Unserialize (defaults, sub-object defaults) are examined by a bounded guard first. NOT decided: Go values that contain themselves (Validate / Serialize recurse with the value). Decided: R-REFLECT (g) - Elem() only of a pointer known not to be nil (through parameters and callers); (h) - Set on a struct field only under CanSet() or a recover scope; R-TERM - the sub-object-defaults descent is bounded by a visited path, the inline-shorthand chain by a guard method (exception E-CHAINGUARD). Decided: R-UNSETNIL (CanInterface clause) and R-REFLECT (e, f) - field access through the field cache does not walk through nil embedded pointers, values of unexported fields are not read, Convert to run-time types needs CanConvert. no reachable unguarded panic site of three classes in the functions reachable from Unserialize/Validate/Serialize/ValidateCompatibility " +
			"(and typed variants) of all Serializable implementers, outside recover scopes - R-ASSERT: every single-value type assertion is justified by dynamic-type " +
			"provenance, a validator summary, a TypeID gate, the meta-root argument, or a named structural exception class; R-NILGUARD: every dereference of a field or " +
			"parameter that the repository itself compares with nil is dominated by a non-nil fact on the same access path (dominator facts + must-dataflow for lazy-init); " +
			"R-MAPNIL: no dereference of a pointer/interface map element looked up without presence check unless the key provably comes from the same map. " +
			"Also decided: R-EXPLICIT (explicit panics classified by data taint), R-REFLECT (a) methods on reflect.TypeOf(x), (b) zero-Value-panicking methods on reflect.ValueOf(x), (c) validity and key assignability of MapIndex, (d) Set / SetMapIndex with reflect.ValueOf(x) - for a possibly nil x, with must-hold validity facts over branch edges; R-HASHKEY (unhashable interface-typed map keys); R-DIVZERO; R-MUSTCALL; R-TERM (every call cycle through a reference dereference consumes input or is bounded by a guard; the four demonstrated stack overflows are repaired). NOT decided: panic classes outside these (reflect kind/assignability preconditions, arithmetic, index bounds, third-party code), loops and cyclic Go data, " +
			"hence level 'other', not a proof of totality.",
		Assumptions: []string{wellFormed},
		Rules: []func(*Ctx){
			func(c *Ctx) { c.ruleFieldIface("R-FIELDIFACE") },
			func(c *Ctx) { c.ruleStableID("R-STABLEID") },
			func(c *Ctx) { c.ruleUnsetNil("R-UNSETNIL"); c.R.Floor("R-UNSETNIL", 3) },
			func(c *Ctx) { c.ruleAssert("R-ASSERT", c.scopeData()); c.R.Floor("R-ASSERT", 14) },
			func(c *Ctx) { c.ruleNilGuard("R-NILGUARD", c.scopeData()); c.R.Floor("R-NILGUARD", 30) },
			func(c *Ctx) { c.ruleMapNil("R-MAPNIL", c.scopePkg("schema")); c.R.Floor("R-MAPNIL", 10) },
			func(c *Ctx) {
				c.ruleExplicit("R-EXPLICIT", c.M, c.entryData(), c.dataTaint(c.entryData()), true)
				c.R.Floor("R-EXPLICIT", 8)
			},
			func(c *Ctx) { c.ruleReflect("R-REFLECT", c.scopeData()); c.R.Floor("R-REFLECT", 10) },
			func(c *Ctx) { c.ruleKindPre("R-KINDPRE", c.scopeData()); c.R.Floor("R-KINDPRE", 40) },
			func(c *Ctx) { c.ruleHashKey("R-HASHKEY", c.scopeData()); c.R.Floor("R-HASHKEY", 1) },
			func(c *Ctx) { c.ruleTypedNil("R-TYPEDNIL", c.scopeData()) },
			func(c *Ctx) { c.ruleDivZero("R-DIVZERO", c.scopeData()); c.R.Floor("R-DIVZERO", 1) },
			func(c *Ctx) { c.ruleTerm("R-TERM", c.entryData(), false); c.R.Floor("R-TERM", 4) },
			func(c *Ctx) {
				c.ruleMustCall("R-MUSTCALL", c.M.Reachable(append(c.entryLoad(), c.entryData()...), nil))
			},
		},
	})
	register(&PropSpec{
		ID: "C05",
		Explanation: "Decided (round 17, also under C06): R-DONEGATE - no insertion into the pending table replaces an entry that is still there, with or without a result (the collector looks its entry up and deletes it by run ID: a replaced slot loses one result or hands it to the other call). Decided: R-NONFATAL - the handler of error messages stops the read loop only where the step-fatal or server-fatal flag was found set or the payload did not decode; R-FREEFIRST - where a table of the server session decides whether a work start is taken (a method both looks a key up and inserts it), no delete on it comes after a call that can write a terminal message, and at least one method of the session deletes from it (a deciding table that is never pruned refuses the ID of a finished run for good). Decided: R-SIGNONFATAL (also here) - nothing reported on behalf of a signal can be step-fatal, computed flags included: a signal cannot end the Execute of its step. Decided: R-DECODERX same-turn clause - a request whose reply is matched by position is written under the mutex held at the read. Decided: R-DECODERX - every Decode on the connection's decoder is exclusive; R-CODEC - CBOR modes as wide as the schemas; R-PAIR - a result that has arrived is never overwritten. R-LOCKSET - for every struct with a mutex (ATP client, ATP server session, callable step) the guarded fields are inferred (accessed under " +
			"the mutex and mutable after construction; shared cbor encoders, the client's pending table, signal table and running flag are required to be guarded) and every " +
			"access outside construction holds the mutex on all paths (must-lockset dataflow, helpers inherit the locks of all call sites, a goroutine started inside a " +
			"critical section and joined before the unlock counts as inside). This is the structural part of 'never corrupted by interleaved writes / delivered to a different " +
			"run'. R-EXACTLYONE / R-DOM - each step-runner path emits exactly one terminal message and the step is called once with the unserialized input; R-RUNID - every run-ID position (RunID fields, keys of the run tables, run-ID parameters; tables and parameters inferred to a fixpoint) is fed by a run ID passed through unchanged. R-FRESHDEC - the target of every Decode inside a message loop is allocated per iteration (a message that omits a field cannot inherit the previous message's). R-ONEDECODER - the client has exactly one CBOR stream decoder, created in its constructor. NOT decided: interleavings as such, transport chunking, CBOR fidelity, equality of results with in-process calls.",
		Assumptions: []string{"callers that obtain the raw codec through the exported Encoder()/Decoder() accessors are outside the premise",
			"the 60 s send time-out arm of sendRuntimeMessage (transport stall) is outside the premise"},
		Rules: []func(*Ctx){
			func(c *Ctx) { c.ruleFreeFirst("R-FREEFIRST") },
			func(c *Ctx) { c.ruleDoneGate("R-DONEGATE") },
			func(c *Ctx) { c.ruleNonFatal("R-NONFATAL") },
			func(c *Ctx) { c.ruleSignalNonFatal("R-SIGNONFATAL") },
			func(c *Ctx) { c.ruleCodec("R-CODEC"); c.R.Floor("R-CODEC", 3) },
			func(c *Ctx) { c.rulePair("R-PAIR") },
			func(c *Ctx) { c.ruleDecoderExclusive("R-DECODERX"); c.R.Floor("R-DECODERX", 3) },
			func(c *Ctx) { c.ruleOneDecoder("R-ONEDECODER") },
			func(c *Ctx) { c.ruleFreshDecode("R-FRESHDEC", c.scopePkg("atp")); c.R.Floor("R-FRESHDEC", 2) },
			func(c *Ctx) { c.ruleLockset("R-LOCKSET", c.lockTargets("atp", "schema")); c.R.Floor("R-LOCKSET", 15) },
			func(c *Ctx) { c.ruleExactlyOne("R-EXACTLYONE") },
			func(c *Ctx) { c.ruleStepDom("R-DOM") },
			func(c *Ctx) { c.ruleRunID("R-RUNID", c.scopePkg("atp", "schema")); c.R.Floor("R-RUNID", 25) },
		},
	})
	register(&PropSpec{
		ID: "C06",
		Explanation: "Decided: R-LOOPBLOCK - no channel operation in the functions the read loop runs can wait for a receiver outside the client (the blocking hand-over of emitted signals is a known finding). Decided: R-FORWARDALL - the signal forwarder leaves its loop only on a closed channel, cancellation or a failed write. Decided R-STARTGATE - a run's registration and the writing of its work start lie in one section read-locked by an RWMutex that Close write-holds for the client-done message; R-READFIRST - the read loop is started before the work start is written; R-RELOCK - no call made inside a critical section takes the same mutex again; R-DONEGATE also over every Add on the WaitGroup Close waits for, and no insertion replaces a pending entry; R-WG accepts a count reserved by a callee and requires its release. Decided R-SIGORDER, R-DONEGATE, R-SIGCHAN - the signal forwarder starts after the work start is written, runs are registered only on an open client, emitted signals are handed over with a way out; every send / close pair on a caller's signal channel is separated by goroutine confinement, the state mutex or the hand-over marker; every close goes with the removal of the table entry; every end of a run closes its channel. (structural necessary conditions for the absence of lost hand-overs and lost wake-ups in the client): R-ATOMIC - the running flag is cleared only " +
			"in a critical section that also scans the pending table, and set in the section that tested it and starts the read loop; presence-check-then-insert on guarded " +
			"tables happens in one critical section; R-MUSTPASS - every exit of the read loop has cleared the running flag since the last read; R-PAIR - the result store is " +
			"followed by Signal in the same critical section and Wait is guarded by a test of the condition; R-WG (d) - every count added to a field-held WaitGroup is released (Done direct, deferred, through Once.Do, in a callee or goroutine that always calls it) in the call tree that added it; a function that leaves with the count hands the obligation to its static callers, an exported or address-taken one must not leave with it; R-WG - Add dominates each go whose goroutine calls Done, Done is " +
			"reached on every exit, Close cancels the context before every wait; R-BLOCKLOCK - no blocking operation under the client mutex except the encoder write (one " +
			"documented exception). R-IDLECHECK - every path from one Decode of the read loop to the next passes the call that clears the running flag when nothing is pending. R-BLOCKLOCK has no exception: the signal hand-over under the mutex was a demonstrated deadlock and is repaired; R-SIGCHAN checks that every send on / close of a caller's signal channel is confined to the read loop's goroutine; R-PAIR also requires an inserted pending entry to be awaited or removed on every path. R-ONEDECODER - the client has exactly one CBOR stream decoder, created in its constructor. NOT decided: liveness under all schedules as such; deadlocks that need reasoning about the peer.",
		Assumptions: []string{"sync.Cond has no spurious wake-ups (Go semantics)", "the peer behaves correctly (property premise)"},
		Rules: []func(*Ctx){
			func(c *Ctx) { c.ruleDoneGate("R-DONEGATE") },
			func(c *Ctx) { c.ruleSignalOrder("R-SIGORDER") },
			func(c *Ctx) { c.rulePairInsert("R-PAIR") },
			func(c *Ctx) { c.ruleSigChan("R-SIGCHAN") },
			func(c *Ctx) { c.ruleRelock("R-RELOCK") },
			func(c *Ctx) { c.ruleStartGate("R-STARTGATE") },
			func(c *Ctx) { c.ruleReadFirst("R-READFIRST") },
			func(c *Ctx) { c.ruleForwardAll("R-FORWARDALL") },
			func(c *Ctx) { c.ruleLoopBlock("R-LOOPBLOCK") },
			func(c *Ctx) { c.ruleOneDecoder("R-ONEDECODER") },
			func(c *Ctx) { c.ruleIdleCheck("R-IDLECHECK") },
			func(c *Ctx) { c.ruleAtomic("R-ATOMIC"); c.R.Floor("R-ATOMIC", 4) },
			func(c *Ctx) { c.ruleMustPass("R-MUSTPASS") },
			func(c *Ctx) { c.rulePair("R-PAIR") },
			func(c *Ctx) { c.ruleWG("R-WG"); c.R.Floor("R-WG", 8) },
			func(c *Ctx) { c.ruleBlockLock("R-BLOCKLOCK"); c.R.Floor("R-BLOCKLOCK", 1) },
		},
	})
	register(&PropSpec{
		ID: "C07",
		Explanation: "Decided: R-SENDCTX - the wait for a write to the client (the select behind the encoding goroutine) has no arm on the Done() channel of the session's context or of a context derived from it: after a cancellation the steps still running get their terminal messages. Decided: R-CLOSEONCE - the session's input is closed by a function handed to sync.Once.Do only (a second Close was taken for a server failure and dropped the reports of the steps still running). Decided: R-DEFERUNLOCK - a mutex held across a call of a function kept in a field (the step's initializer) is released by a deferred unlock; R-LOCKSET - the guarded fields of the server session and of the callable step are touched under their mutex only. Decided: R-CHAN no-report-after-Done - nothing that can send on the error channel runs after a goroutine's Done (defer order included); R-SIGNONFATAL - no step-fatal report on behalf of a signal. Decided: R-PLUGINPANIC - no explicit panic in the plugin entry point. R-CHAN - no goroutine can send on the error channel after its close (close must be joined with all sending goroutines), the report loop only " +
			"stops when the channel is closed or hands over to a deferred drain that keeps receiving until then, no report is sent non-blockingly, and the client's signal channels are closed/sent under one discipline; R-RECOVER - every " +
			"goroutine that runs step code does so below a recover scope; R-EXACTLYONE - every path of the step runner, including the panic path through the recover handler, " +
			"emits exactly one terminal message; R-WG (d) - no count on a WaitGroup (the session's, a step's) is left for another entry point to release: which entry points a client makes run is the client's choice; R-WG for the server goroutines; R-MAPNIL - unknown step / signal IDs cannot be dereferenced (server side of C11). " +
			"R-DECODEEXIT - the failure branch of a Decode inside a message loop cannot lead back to it; R-RECOVER covers CallSignal as well as CallStep. R-FRESHDEC - the target of every Decode inside a message loop is allocated per iteration (a message that omits a field cannot inherit the previous message's). NOT decided: byte-level behaviour of the CBOR decoder on truncated input; behaviour of user step code.",
		Assumptions: []string{"channel semantics of Go (send on closed channel panics; send without receiver blocks)"},
		Rules: []func(*Ctx){
			func(c *Ctx) { c.ruleSendCtx("R-SENDCTX") },
			func(c *Ctx) { c.ruleCloseOnce("R-CLOSEONCE") },
			func(c *Ctx) { c.rulePluginPanic("R-PLUGINPANIC") },
			func(c *Ctx) { c.ruleFreshDecode("R-FRESHDEC", c.scopePkg("atp")); c.R.Floor("R-FRESHDEC", 2) },
			func(c *Ctx) { c.ruleDecodeExit("R-DECODEEXIT", c.scopePkg("atp")); c.R.Floor("R-DECODEEXIT", 2) },
			func(c *Ctx) { c.ruleChan("R-CHAN") },
			func(c *Ctx) { c.ruleSigChan("R-SIGCHAN") },
			func(c *Ctx) { c.ruleRecover("R-RECOVER") },
			func(c *Ctx) { c.ruleExactlyOne("R-EXACTLYONE") },
			func(c *Ctx) { c.ruleSignalNonFatal("R-SIGNONFATAL") },
			func(c *Ctx) { c.ruleWG("R-WG"); c.R.Floor("R-WG", 8) },
			func(c *Ctx) { c.ruleMapNil("R-MAPNIL", c.scopePkg("schema", "atp")); c.R.Floor("R-MAPNIL", 10) },
			func(c *Ctx) { c.ruleDeferUnlock("R-DEFERUNLOCK", c.scopePkg("schema", "atp")) },
			func(c *Ctx) { c.ruleLockset("R-LOCKSET", c.lockTargets("atp", "schema")); c.R.Floor("R-LOCKSET", 15) },
		},
	})
	register(&PropSpec{
		ID: "C08",
		Explanation: "Decided: R-DECODEFIRST - every handler of the client that is handed the envelope of a message decodes its payload on every path to a return (a damaged message is not dropped as one that needs no attention); R-NONFATAL - an error report with neither flag set does not end the read loop. Decided: R-SIGCHAN never-registered clause - every return of a client method that was given the caller's signal channel lies behind a hand-over of the channel, a close or a deferred one; R-WORKDONE step clause - a decoded work-done message becomes a result only where its step ID was compared with the run's step. Decided: R-DELIVER per-run deliveries - a result or step-fatal error that reaches no waiting call breaks the stream; R-SIGCHAN refusal clause - a run refused before registration has its signal channel closed; R-WORKDONE - output data is a map; R-RELOCK as in C06. Decided: R-STICKY - every failed read from the stream (and every failure of the handshake after the hello message) is remembered in the client's error field, which is never cleared, and a run is registered / a reply is read directly only where that field was found nil under the right mutex: later Execute calls fail instead of reading from the middle of a damaged stream; R-SIGCHAN - a close of a caller's signal channel cannot hit a send in flight (goroutine confinement, the state mutex, or the hand-over marker), goes with the removal of the table entry, and follows every end of a run (result stored, or pending entry removed without one). R-WORKDONE - success results only from work-done messages with an output ID and output data; R-CLIENTPANIC - no explicit panic reachable from the client's methods beyond two accepted invariants. R-DELIVER - every decode/unmarshal error in the client reaches the affected waiter(s) (result store + wake-up) or the caller's return value, " +
			"every decoded runtime message is handed to a handler, and a decoded result is delivered where the pending table is known to hold its run or else fails all waiters; R-MUSTPASS - every exit of the read loop has failed all waiters or found none, and cleared the running " +
			"flag in that critical section, so later Execute calls start a new reader (which fails again on a dead stream); R-WG(c) - Close cancels before it waits. " +
			"R-STRICTDEC - every CBOR decoding call in the client's methods uses the client's strict DecMode (unknown fields are errors), never the package-level cbor.Unmarshal / NewDecoder; R-DECODEEXIT - as in C07. NOT decided: which corruptions the CBOR decoder reports as errors; timing.",
		Assumptions: []string{"every decode call may fail at any time (the property's fault model)"},
		Rules: []func(*Ctx){
			func(c *Ctx) { c.ruleClientPanic("R-CLIENTPANIC"); c.R.Floor("R-CLIENTPANIC", 1) },
			func(c *Ctx) { c.ruleWorkDone("R-WORKDONE") },
			func(c *Ctx) { c.ruleDecodeExit("R-DECODEEXIT", c.scopePkg("atp")); c.R.Floor("R-DECODEEXIT", 2) },
			func(c *Ctx) { c.ruleStrictDec("R-STRICTDEC"); c.R.Floor("R-STRICTDEC", 5) },
			func(c *Ctx) { c.ruleDeliver("R-DELIVER") },
			func(c *Ctx) { c.ruleSticky("R-STICKY") },
			func(c *Ctx) { c.ruleSigChan("R-SIGCHAN") },
			func(c *Ctx) { c.ruleRefusalCloses("R-SIGCHAN") },
			func(c *Ctx) { c.ruleRelock("R-RELOCK") },
			func(c *Ctx) { c.ruleMustPass("R-MUSTPASS") },
			func(c *Ctx) { c.ruleAtomic("R-ATOMIC"); c.R.Floor("R-ATOMIC", 4) },
			func(c *Ctx) { c.ruleNonFatal("R-NONFATAL") },
			func(c *Ctx) { c.ruleDecodeFirst("R-DECODEFIRST"); c.R.Floor("R-DECODEFIRST", 3) },
			func(c *Ctx) { c.ruleWG("R-WG"); c.R.Floor("R-WG", 8) },
		},
	})
	register(&PropSpec{
		ID: "C11",
		Explanation: "Decided: R-HANDLERARG - what comes out of a comma-ok type assertion (the step data typed for the handler) reaches a handler only where the assertion is known to have succeeded. Decided: R-ASSERT over the call layer - assertions on the handler's input and the run's step data are justified for the nil interface too. R-DOM/R-FLOW - the step and signal handlers are invoked at exactly one site, outside loops, dominated by a successful Validate of the very value " +
			"they receive; CallStep/CallSignal call the step only after a successful Unserialize and pass exactly its result; an accepting return of Call follows the " +
			"declared-output lookup and carries the output schema's verdict; R-ERRPROV - unknown ID, rejected input and undeclared output each map to their own error type; " +
			"R-MAPNIL - unknown step/signal/output IDs are never dereferenced; R-STEPDATA + R-ATOMIC - the per-run step data is inserted only on a miss of the same run ID, in " +
			"the critical section that looked it up, and never removed or replaced. NOT decided: what handlers do; equality of results.",
		Assumptions: []string{"A4: handler and initializer are user callbacks"},
		Rules: []func(*Ctx){
			func(c *Ctx) { c.ruleHandlerArg("R-HANDLERARG"); c.R.Floor("R-HANDLERARG", 1) },
			func(c *Ctx) {
				// the call layer itself: assertions on the handler's input and on the run's step data
				set := map[*ssa.Function]bool{}
				for _, f := range c.funcsByKeys("MODEL", "schema.CallableSchema.CallStep", "schema.CallableSchema.CallSignal", "schema.CallableStepSchema.Call", "schema.CallableStepSchema.CallSignal", "schema.CallableSignalSchema.Call") {
					set[f] = true
				}
				c.ruleAssert("R-ASSERT", set)
			},
			func(c *Ctx) { c.ruleStepDom("R-DOM") },
			func(c *Ctx) { c.ruleStepErrors("R-ERRPROV") },
			func(c *Ctx) { c.ruleStepData("R-STEPDATA") },
			func(c *Ctx) { c.ruleAtomic("R-ATOMIC"); c.R.Floor("R-ATOMIC", 4) },
			func(c *Ctx) { c.ruleMapNil("R-MAPNIL", c.scopePkg("schema")); c.R.Floor("R-MAPNIL", 10) },
		},
	})
	register(&PropSpec{
		ID: "C09",
		Explanation: "Decided: R-SUPPLIEDNONNIL - a value that was supplied is never unserialized into a nil slice or map (the description of a schema is its serialization through the meta-schema, where nil means \"not set\": an empty rule list that came back as nil would drop out of the re-description). Decided: R-EMPTYROW - no row of the meta-schema whose struct field is a pointer is marked TreatEmptyAsDefaultValue (a pointer to the zero value is a value, not \"not set\"); R-KEEPKEY - entry-by-entry copies of a table of the receiver into a new map (ToStepSchema, SelfSerialize) keep the keys. Decided: R-TABLE - the hand-written meta-schema tables are evaluated from the package initialiser and compared with the Go structs they describe: " +
			"every json-tagged field (inline-embedded structs flattened) has a row and every row a field (T1); the keys of the value-type one-of are exactly the TypeID " +
			"constants and each dispatches to a struct whose TypeID() reports that key, the map-key one-of likewise (T3); the rows for the value bounds of the integer and " +
			"float kinds are themselves unbounded, so every constructible schema can describe itself (T5); R-FORWARD - the loaders reach ApplySelf for every scope-typed " +
			"descendant of what they return, and all containers forward linking to all children. R-METABOUND - every value restriction a meta-schema row carries is guarded where the described field is written (22 rows are not: constructors accept what the meta-schema rejects - demonstrated known findings). NOT decided: the describe/rebuild/describe fixed point as a value-level " +
			"statement, CBOR/YAML passes, behavioural equality of original and rebuilt schema, string constraints (patterns / lengths) that the tables put on identifiers.",
		Assumptions: []string{"the tables are built from literals and constructor calls (anything else fails the check as undecided)"},
		Rules: []func(*Ctx){
			func(c *Ctx) { c.ruleSuppliedNonNil("R-SUPPLIEDNONNIL") },
			func(c *Ctx) { c.ruleKeepKey("R-KEEPKEY") },
			func(c *Ctx) { c.ruleEmptyRow("R-EMPTYROW"); c.R.Floor("R-EMPTYROW", 10) },
			func(c *Ctx) { c.ruleLoadLink("R-LOADLINK") },
			func(c *Ctx) { c.ruleRebuilt("R-REBUILT"); c.R.Floor("R-REBUILT", 5) },
			func(c *Ctx) { c.ruleTable("R-TABLE") },
			func(c *Ctx) { c.ruleMetaBound("R-METABOUND"); c.R.Floor("R-METABOUND", 10) },
			func(c *Ctx) { c.ruleKeyKinds("R-KEYKINDS"); c.R.Floor("R-KEYKINDS", 2) },
			func(c *Ctx) { c.ruleForward("R-FORWARD") },
		},
	})
	register(&PropSpec{
		ID: "C10",
		Explanation: "Decided: R-STABLEID (see C04). Decided: R-EXPLICIT checked-at-link discharge - a schema-state panic whose condition linking evaluates first (root object, defaults) cannot be the first thing a received description meets. Decided: R-EXPLICIT without the well-formedness assumptions - every explicit panic reachable from UnserializeSchema / UnserializeScope / ReadSchema or from the " +
			"data API is classified; a guard that depends only on schema state which a received description can produce is a violation (9 such sites, all on first use of an accepted description with a reference into a namespace nobody applies, are genuine, demonstrated " +
			"defects recorded as known findings; the loaders themselves recover linking panics, each keyed separately so a new panic path is still reported); R-FORWARD - the loaders link every scope they return; " +
			"R-ASSERT - the loaders' own type assertions are justified by the meta-root argument. Also decided: R-DIVZERO, R-MUSTCALL (no Must* constructor on run-time patterns), R-TERM (recursion through received references: the demonstrated stack overflows are repaired; the re-seeding of Unserialize with defaults is bounded by a guard, exception E-DEFAULTGUARD). NOT decided: semantic usability of an accepted description; panics from " +
			"reflection inside the struct mapper (covered by its recover scope).",
		Assumptions: []string{"table entries produced by the struct mapper are non-nil (A2 holds for wire-built schemas too)"},
		Rules: []func(*Ctx){
			func(c *Ctx) { c.ruleStableID("R-STABLEID") },
			func(c *Ctx) { c.ruleRebuilt("R-REBUILT"); c.R.Floor("R-REBUILT", 5) },
			func(c *Ctx) {
				roots := append(c.entryLoad(), c.entryData()...)
				c.ruleExplicit("R-EXPLICIT", c.M, roots, c.dataTaint(c.entryData()), false)
				c.R.Floor("R-EXPLICIT", 10)
			},
			func(c *Ctx) { c.ruleForward("R-FORWARD") },
			func(c *Ctx) {
				c.ruleDivZero("R-DIVZERO", c.reachableOutsideRecover(append(c.entryLoad(), c.entryData()...)))
				c.R.Floor("R-DIVZERO", 1)
			},
			func(c *Ctx) { c.ruleTerm("R-TERM", c.entryData(), false); c.R.Floor("R-TERM", 4) },
			func(c *Ctx) {
				c.ruleMustCall("R-MUSTCALL", c.M.Reachable(append(c.entryLoad(), c.entryData()...), nil))
			},
			func(c *Ctx) {
				fns := map[*ssa.Function]bool{}
				for _, f := range c.entryLoad() {
					fns[f] = true
				}
				c.ruleAssert("R-ASSERT", c.withWorkers(fns))
				c.R.Floor("R-ASSERT", 1)
			},
		},
	})
	register(&PropSpec{
		ID: "C14",
		Explanation: "R-FORWARD reference clause: a failed lookup never leaves the old link standing (no normal way out of RefSchema.ApplyNamespace with the object not found unless the link was written). Decided: R-FORWARD must-pass clause - ApplyNamespace / ValidateReferences of a container reach the call on a single child on every path on which they can report success. Decided: R-KEYID - the scope's own table is handed down for linking only after every entry's ID was compared with its key; R-KINDSIB - a case distinction over TypeID() with cases for the reference and the object has one for the scope. Decided: R-TERM (data mode, as under C04) - recursion through references is driven by the input or bounded. Decided: R-FORWARD - ApplyNamespace of every container forwards to every child (json-tagged Serializable field, or map/slice of such; inside a loop for " +
			"collections) with the namespace string and the object table unchanged; the scope hands down its own table exactly for the self namespace and the external " +
			"table otherwise; the reference links only when the namespace matches, to objects[its own ID]; ValidateReferences visits every child, returns its verdict, and " +
			"succeeds for a reference iff it is linked; the loaders link all scopes. R-NSDEREF - code that runs while a namespace is being applied uses a child Object through a method that needs a linked reference (the RefSchema methods that panic on a nil cache) only where the child is known not to be an unlinked reference. NOT decided: the metamorphic 'inline the reference' equivalence over inputs; " +
			"termination of the linking walk on self-referential object graphs.",
		Assumptions: []string{wellFormed},
		Rules: []func(*Ctx){
			func(c *Ctx) { c.ruleLoadLink("R-LOADLINK") },
			func(c *Ctx) { c.ruleForward("R-FORWARD") },
			func(c *Ctx) { c.ruleNsDeref("R-NSDEREF") },
			func(c *Ctx) { c.ruleKeyID("R-KEYID") },
			func(c *Ctx) { c.ruleKindSib("R-KINDSIB") },
			func(c *Ctx) { c.ruleTerm("R-TERM", c.entryData(), false); c.R.Floor("R-TERM", 4) },
		},
	})
	register(&PropSpec{
		ID: "C15",
		Explanation: "Decided: R-OFFERALL - every way round the loop that copies the producer's Properties() into the table handed to the comparison stores the entry (the pair rules, disabled on both sides among them, need to see the producer's property). Decided: R-MEMOGROWS - nothing is deleted from the set of compared pairs that the compatibility check hands down its recursion, and no callee gets a fresh one (shared objects are compared once, not once per path). Decided: R-STABLEID (see C04); R-OVERLAP also over a helper that is handed the four bounds, with its callers refusing on its answer. Decided: R-REFLEX - no schema-mode rejection whose path condition consists of flags only (bool fields and getters of the two schemas, optional fields set or not) is consistent once the producer is read as the consumer: no such schema is refused as its own producer; R-DISABLED - a producer that declares a property but has it disabled does not supply it, and no accepting return goes round the loop over the consumer's required properties; R-TERM schema mode - the comparison carries the set of object pairs it has entered (visited-pairs discharge). R-MUSTUSE cross-kind clause - a bounded kind accepts a producer of another kind only after a look at its own bounds; R-DISABLED (schema mode) - a disabled property does not accept a producer that requires it. Decided for the schema-mode code of every ValidateCompatibility: R-KINDGATE - every `return nil` is dominated by a gate that separates the receiver's kind " +
			"from all others (TypeID comparison, assertion to a concrete schema type, kind whitelist, conversion helper, or a reflective field probe whose embedders all report " +
			"one TypeID) or lies in data mode; R-OVERLAP - the range comparisons are in normal form (reject iff other.min > self.max or other.max < self.min) and, by " +
			"enumeration of all acyclic paths from the point where both schemas' bounds are available, every accepting path has decided both bound pairs (nil bound or " +
			"comparison with the accepting outcome) - for all combinations of present/absent bounds; R-MUSTUSE - every kind with min/max consults them in schema mode (the " +
			"list kind did not: found and repaired); R-NILGUARD - optional bounds are dereferenced only under their own nil guard; R-MAPORDER - the verdict does not depend on " +
			"map iteration order. R-TERM (schema mode) - every reference-dereference cycle below a schema-mode hand-over passes the function that keeps the set of object pairs entered (repaired by 6f90fa9); R-EFFECT - no write to shared state during a comparison. NOT decided: reflexivity as a value-level statement, completeness of the catalogue " +
			"of rejections beyond kind, bounds and the loops' verdict classes.",
		Assumptions: []string{wellFormed},
		Rules: []func(*Ctx){
			func(c *Ctx) { c.ruleMemoGrows("R-MEMOGROWS"); c.R.Floor("R-MEMOGROWS", 4) },
			func(c *Ctx) { c.ruleOfferAll("R-OFFERALL"); c.R.Floor("R-OFFERALL", 1) },
			func(c *Ctx) { c.ruleStableID("R-STABLEID") },
			func(c *Ctx) { c.ruleDescend("R-DESCEND"); c.R.Floor("R-DESCEND", 2) },
			func(c *Ctx) { c.ruleReflex("R-REFLEX") },
			func(c *Ctx) { c.ruleEffect("R-EFFECT", c.entryData("ValidateCompatibility"), false, true) },
			func(c *Ctx) { c.ruleOverlap("R-OVERLAP") },
			func(c *Ctx) { c.ruleKindGate("R-KINDGATE") },
			func(c *Ctx) { c.ruleConvertAll("R-CONVERTALL"); c.R.Floor("R-CONVERTALL", 4) },
			func(c *Ctx) { c.ruleBoundsConsulted("R-MUSTUSE") },
			func(c *Ctx) { c.ruleCrossKindBounds("R-MUSTUSE") },
			func(c *Ctx) { c.ruleDisabled("R-DISABLED") },
			func(c *Ctx) { c.ruleTerm("R-TERM", c.entryData("ValidateCompatibility"), true); c.R.Floor("R-TERM", 1) },
			func(c *Ctx) {
				fns := map[*ssa.Function]bool{}
				for _, f := range c.compatFuncs() {
					fns[f] = true
				}
				c.ruleNilGuard("R-NILGUARD", fns)
				c.R.Floor("R-NILGUARD", 12)
				c.ruleMapOrder("R-MAPORDER", c.M, fns)
				c.R.Floor("R-MAPORDER", 6)
			},
		},
	})
	register(&PropSpec{
		ID: "C16",
		Explanation: "Decided: R-PARSEERR - every use of the number strconv.ParseFloat / ParseInt / ParseUint / Atoi hands back lies where the error of the same call is known to be nil (or number and error are handed on together); a helper that decides which errors count is followed through what its outcome implies. Decided: R-FMTPREC, units clause - a printed float amount carries all its digits (no %f, no fixed precision); R-TRIM accepts the shortest rendering; R-SIBLING sees through the count helper. Decided: R-SIBLING - in each of the four UnitsDefinition.Format* functions the amount handed to the per-unit formatter inside the multiplier loop is the " +
			"math.Floor quotient, never the loop-carried remainder; R-TRIM - digits are trimmed only from renderings known to contain a decimal point, with a cutset that does " +
			"not also contain the point; R-GRAMMAR - the parser's regexp templates (verbs replaced by quoted-literal placeholders, parsed with regexp/syntax) contain no " +
			"any-character operator, every named count group needs at least one digit and matches only digits and a literal point, interpolated names are QuoteMeta'd; " +
			"R-SUMALL - on every way out of the parser's fold step taken after a count was parsed, the sum that is the result afterwards is computed from the count and the sum received, and a switch from the integer sum to the float sum loses nothing (the float sum is kept up to date in integer mode, or is computed from the integer sum, or the caller adds both); R-OVERFLOW - every int64 multiplication / addition on values derived from strconv.ParseInt is dominated by an overflow pre-check against MaxInt64 with a " +
			"positive divisor. NOT decided: the numeric round trip itself, float tolerance, negative component rendering for values above 2^53, FormatLongFloat's %f rendering.",
		Assumptions: []string{"unit multipliers are positive (NewUnits does not enforce it; a zero or negative multiplier is outside the rule's guard recognition)"},
		Rules: []func(*Ctx){
			func(c *Ctx) { c.ruleFmtPrecUnits("R-FMTPREC") },
			func(c *Ctx) { c.ruleSibling("R-SIBLING") },
			func(c *Ctx) { c.ruleTrim("R-TRIM") },
			func(c *Ctx) { c.ruleGrammar("R-GRAMMAR"); c.R.Floor("R-GRAMMAR", 2) },
			func(c *Ctx) { c.ruleOverflow("R-OVERFLOW"); c.R.Floor("R-OVERFLOW", 2) },
			func(c *Ctx) { c.ruleSumAll("R-SUMALL"); c.R.Floor("R-SUMALL", 2) },
			func(c *Ctx) { c.ruleParseErr("R-PARSEERR"); c.R.Floor("R-PARSEERR", 5) },
		},
	})
	register(&PropSpec{
		ID: "C17",
		Explanation: "Decided: R-SUBOBJRULES - the value built for an unset sub-object is stored only where its presence rules were found to hold, and nothing is put into it between that check and the store (a missing required sub-object is then reported at the sub-object, not at a property inside it that nobody wrote). Decided: R-SEGKIND - every path segment added below Unserialize / Validate is made of a key of the data or of a property table, a loop index, a converted key or a parameter; R-ELEMPATH clause 3 - a rejection whose text names the key its loop is at stores a path. Decided: R-ELEMPATH - an error a container raises about one of its own elements (undeclared key, discriminator) stores a path segment for it. Decided: R-ERRORIGIN - interprocedural error-origin summaries show that every error value that can leave Unserialize / Validate (and typed variants) of any " +
			"schema type originates as a *ConstraintError (origins in schema-mode compatibility code, reached only when the argument is itself a schema, are listed, not " +
			"claimed); R-PATHSEG - wherever the failure of a child operation decides a rejecting return, the returned error is the child's error itself or that error " +
			"passed through ConstraintErrorAddPathSegment; a container returning an element's error inside its loop without a segment, or any function replacing the child's " +
			"error by a newly built one, is a violation (3 genuine re-wraps on the one-of Validate path were found and repaired). R-VALSTRING - reflect.Value.String() only under a Kind()==String fact or on a Convert to a string type. NOT decided: that the segment text equals the " +
			"user's key spelling; the order of segments (the prepend in AddPathSegment is value-level).",
		Rules: []func(*Ctx){
			func(c *Ctx) { c.ruleSubObjRules("R-SUBOBJRULES") },
			func(c *Ctx) { c.ruleElemPath("R-ELEMPATH") },
			func(c *Ctx) { c.ruleSegKind("R-SEGKIND") },
			func(c *Ctx) { c.ruleValueString("R-VALSTRING", c.scopePkg("schema")) },
			func(c *Ctx) { c.ruleErrOrigin("R-ERRORIGIN") },
			func(c *Ctx) { c.rulePathSeg("R-PATHSEG") },
		},
	})
	register(&PropSpec{
		ID: "C18",
		Explanation: "Decided: R-CTORFLAG - every value the constructor of the call error hands out is a record made there from the error and the flag it was given. Decided: R-ERRIDENT - every use of the package-level reflect.Type of error is an operand of == / != (Implements / AssignableTo would accept concrete error types as a handler\u0027s error result). Decided: R-ACCEPT - IsNil() and IsVariadic() of the handler consulted on every accepting path; R-CALL - a panic of the handler is caught. R-TYPEID - the handler's parameter and result types (values of reflect.Type.In/Out) influence acceptance only through identity comparison with a " +
			"reflect.Type or through Kind(), never through their name/String or Implements/AssignableTo/ConvertibleTo; R-REFLECT - Handler.Type() is only reached after " +
			"Kind() == Func was established (locally, by a callee's accepting return, or at every call site); R-DOM - the reflective handler call is dominated by " +
			"len(arguments) == NumIn and is not in a loop; R-ERRPROV - every error returned by Call is a FunctionCallError constructed there, flagged function-reported exactly " +
			"when the wrapped error derives from the handler's results. NOT decided: the full acceptance predicate over all Go signatures (result-count arithmetic), " +
			"argument type checking at call time.",
		Rules: []func(*Ctx){
			func(c *Ctx) { c.ruleCtorFlag("R-CTORFLAG"); c.R.Floor("R-CTORFLAG", 1) },
			func(c *Ctx) { c.ruleTypeID("R-TYPEID") },
			func(c *Ctx) { c.ruleErrIdent("R-ERRIDENT") },
			func(c *Ctx) { c.ruleAccept("R-ACCEPT"); c.R.Floor("R-ACCEPT", 2) },
			func(c *Ctx) { c.ruleHandlerKind("R-REFLECT"); c.R.Floor("R-REFLECT", 4) },
			func(c *Ctx) { c.ruleFunctionCall("R-CALL") },
		},
	})
	register(&PropSpec{
		ID:       "C19",
		NeedsGen: true,
		Explanation: "Decided: R-FLOW - a referenced ID that is a Go keyword is never emitted as it is; values derived from os.Args are printed into the source under %q only; the function that names declarations passes the whole ID to no case-mapping function. NOT decided: steps other than `create`. R-FLOW declared-name clause - a reference to an object of the schema uses the name the object is declared under; R-YAMLNIL - no pointer read from a decoded map is dereferenced without a nil test. Decided for module `codegen`: R-INDEX - every constant index into os.Args beyond the schema file is dominated by a length test (no panic without the ignore " +
			"argument); R-EXPLICIT - the only explicit panic is the environment abort check(err); R-MAPORDER - what is written to the output inside loops over the YAML-decoded maps " +
			"is ordered by a total-order sort of the keys first (byte-identical output on re-runs); R-FLOW - the ignore argument is compared with the object's map key itself, " +
			"parseType is exactly integer->int64 / float->float64 / identity, and a field's type is the referenced ID for refs and the type ID otherwise. " +
			"R-TRUNC - the output file is written truncating (os.WriteFile / os.Create, or os.OpenFile with O_TRUNC / O_APPEND / O_EXCL). NOT decided: gofmt validity of the output for arbitrary identifier spellings; YAML null properties.",
		Assumptions: []string{"a schema file argument is given (the property's premise)"},
		Rules: []func(*Ctx){
			func(c *Ctx) { c.ruleRuneSlice("R-RUNESLICE"); c.R.Floor("R-RUNESLICE", 1) },
			func(c *Ctx) { c.ruleArgsIndex("R-INDEX") },
			func(c *Ctx) { c.ruleTrunc("R-TRUNC"); c.R.Floor("R-TRUNC", 1) },
			func(c *Ctx) {
				all := map[*ssa.Function]bool{}
				for _, f := range c.Gen.Funcs {
					all[f] = true
				}
				c.ruleMapOrder("R-MAPORDER", c.Gen, all)
				c.R.Floor("R-MAPORDER", 2)
				var roots []*ssa.Function
				if m := c.Gen.FuncByKey["main.main"]; m != nil {
					roots = append(roots, m)
				}
				c.ruleExplicit("R-EXPLICIT", c.Gen, roots, nil, false)
			},
			func(c *Ctx) { c.ruleCodegenFlow("R-FLOW") },
			func(c *Ctx) { c.ruleYamlNil("R-YAMLNIL") },
		},
	})
	register(&PropSpec{
		ID: "C12",
		Explanation: "Decided: R-FIELDUNIQ scan clause - no two properties mapped to a struct field and a field inside it; R-MAPORDER error-text clause - a list collected from a map that ends up in the text of a returned error is sorted. NOT decided: which of several faults of one input is reported. Decided: R-FIELDUNIQ - no two properties are mapped to one struct field. Decided: R-EFFECT - every write instruction (store, map update, delete, append into a non-fresh slice, mutating library call) in the functions reachable from " +
			"the pure API is classified by an interprocedural origin analysis; only writes to memory allocated during the call, and idempotent lazy cache fills (written only " +
			"while nil, in a function whose sole input is the receiver), are accepted; R-MAPORDER - every loop over a map has early exits of one verdict class and sorts " +
			"order-sensitive accumulations with a total order unless they only feed an error message. R-MAPORDER also covers MapRange loops and loop-carried reads (a loop that fills a map reads it only at its own key). NOT decided: equality of repeated results as values.",
		Assumptions: []string{wellFormed, "library effects come from a hand-written table; an unclassified library callee fails the check"},
		Rules: []func(*Ctx){
			func(c *Ctx) { c.ruleFieldUniq("R-FIELDUNIQ") },
			func(c *Ctx) { c.ruleMapOrder("R-MAPORDER", c.M, c.scopePkg("schema")); c.R.Floor("R-MAPORDER", 30) },
			func(c *Ctx) {
				c.ruleEffect("R-EFFECT", c.entryData(pureAPI...), false, true)
				c.R.Floor("R-EFFECT", 100)
			},
		},
	})
	register(&PropSpec{
		ID: "C13",
		Explanation: "Decided: R-DEFERUNLOCK, schema clause - a critical section of package schema that makes a call is released by a deferred unlock (a panic inside, caught by the server, must not leave a schema locked for ever). Decided: a data race needs an unsynchronised write to shared memory. R-EFFECT (same origin analysis as C12, entry set extended with step/signal calls and the " +
			"unit definitions) - every write reachable from concurrently callable API goes to memory allocated during the call, or happens while a mutex field of the same " +
			"receiver is held; lazy cache fills are NOT excused here; R-LOCKSET/R-ATOMIC for the step-data table. The schema package uses no atomics and no channels, so " +
			"mutexes are the only synchronisation to recognise. The receiver-mutex discharge never applies to package-level memory; R-STEPDATA - step-data table discipline. NOT decided: races inside third-party packages; result equality with a sequential run.",
		Assumptions: []string{wellFormed, "regexp.Regexp is documented safe for concurrent use"},
		Rules: []func(*Ctx){
			func(c *Ctx) { c.ruleDeferUnlockSchema("R-DEFERUNLOCK") },
			func(c *Ctx) { c.ruleStepData("R-STEPDATA") },
			func(c *Ctx) {
				entries := append(c.entryData(pureAPI...), c.entryStep()...)
				entries = append(entries, c.entryUnits()...)
				c.ruleEffect("R-EFFECT", entries, true, false)
				c.R.Floor("R-EFFECT", 100)
			},
			func(c *Ctx) { c.ruleLockset("R-LOCKSET", c.lockTargets("schema")); c.R.Floor("R-LOCKSET", 2) },
			func(c *Ctx) { c.ruleAtomic("R-ATOMIC"); c.R.Floor("R-ATOMIC", 4) },
		},
	})
}
