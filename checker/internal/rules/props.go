package rules

import (
	"go/types"

	"golang.org/x/tools/go/ssa"
)

// scopeData: functions reachable from the data-facing API, outside recover scopes.
func (c *Ctx) scopeData() map[*ssa.Function]bool {
	return c.reachableOutsideRecover(c.entryData())
}

// scopeAll: every source function of the SDK module.
func (c *Ctx) scopeAll() map[*ssa.Function]bool {
	out := map[*ssa.Function]bool{}
	for _, f := range c.M.Funcs {
		out[f] = true
	}
	return out
}

// lockTargets: every struct of the SDK with a sync.Mutex field.
func (c *Ctx) lockTargets(pkgs ...string) map[*types.Named]string {
	out := map[*types.Named]string{}
	for _, pn := range pkgs {
		pkg := c.M.Types[pn]
		if pkg == nil {
			continue
		}
		for _, name := range pkg.Scope().Names() {
			tn, ok := pkg.Scope().Lookup(name).(*types.TypeName)
			if !ok {
				continue
			}
			named, ok := tn.Type().(*types.Named)
			if !ok {
				continue
			}
			st, ok := named.Underlying().(*types.Struct)
			if !ok {
				continue
			}
			for i := 0; i < st.NumFields(); i++ {
				if isNamed(st.Field(i).Type(), "sync", "Mutex") {
					out[named] = st.Field(i).Name()
					break
				}
			}
		}
	}
	return out
}

func init() {
	register(&PropSpec{
		ID:          "C05",
		Explanation: "R-LOCKSET",
		Rules: []func(*Ctx){
			func(c *Ctx) { c.ruleLockset("R-LOCKSET", c.lockTargets("atp", "schema")) },
		},
	})
	register(&PropSpec{
		ID:          "C06",
		Explanation: "R-ATOMIC R-MUSTPASS R-WG R-PAIR",
		Rules: []func(*Ctx){
			func(c *Ctx) { c.ruleAtomic("R-ATOMIC") },
			func(c *Ctx) { c.ruleMustPass("R-MUSTPASS") },
			func(c *Ctx) { c.ruleWG("R-WG") },
			func(c *Ctx) { c.rulePair("R-PAIR") },
			func(c *Ctx) { c.ruleRecover("R-RECOVER") },
		},
	})
	register(&PropSpec{
		ID:          "C12",
		Explanation: "R-MAPORDER",
		Rules: []func(*Ctx){
			func(c *Ctx) { c.ruleMapOrder("R-MAPORDER", c.M, c.scopeAll()) },
			func(c *Ctx) {
				c.ruleEffect("R-EFFECT", c.entryData("Unserialize", "Validate", "Serialize", "ValidateCompatibility", "UnserializeType", "ValidateType", "SerializeType", "ReflectedType", "TypeID"), false, true)
			},
		},
	})
	register(&PropSpec{
		ID:          "C04",
		Explanation: "R-ASSERT over functions reachable from the data API",
		Assumptions: []string{"A1-A4 (DESIGN §3.0.5)"},
		Rules: []func(*Ctx){
			func(c *Ctx) { c.ruleAssert("R-ASSERT", c.scopeData()) },
			func(c *Ctx) { c.ruleNilGuard("R-NILGUARD", c.scopeData()) },
			func(c *Ctx) { c.ruleMapNil("R-MAPNIL", c.scopeAll()) },
		},
	})
}
