package rules

import "golang.org/x/tools/go/ssa"

// scopeData: functions reachable from the data-facing API, outside recover scopes.
func (c *Ctx) scopeData() map[*ssa.Function]bool {
	return c.reachableOutsideRecover(c.entryData())
}

func init() {
	register(&PropSpec{
		ID:          "C04",
		Explanation: "R-ASSERT over functions reachable from the data API",
		Assumptions: []string{"A1-A4 (DESIGN §3.0.5)"},
		Rules: []func(*Ctx){
			func(c *Ctx) { c.ruleAssert("R-ASSERT", c.scopeData()) },
		},
	})
}
