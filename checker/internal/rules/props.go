package rules

import "golang.org/x/tools/go/ssa"

// scopeData: functions reachable from the data-facing API, outside recover scopes.
func (c *Ctx) scopeData() map[*ssa.Function]bool {
	return c.reachableOutsideRecover(c.entryData())
}

// scopeAll: every source function of the SDK module.
func (c *Ctx) scopeAll() map[*ssa.Function]bool {
	out := map[*ssa.Function]bool{}
	for _, f := range c.M.Funcs {
		out[f] = true
	}
	return out
}

func init() {
	register(&PropSpec{
		ID:          "C12",
		Explanation: "R-MAPORDER",
		Rules: []func(*Ctx){
			func(c *Ctx) { c.ruleMapOrder("R-MAPORDER", c.M, c.scopeAll()) },
			func(c *Ctx) {
				c.ruleEffect("R-EFFECT", c.entryData("Unserialize", "Validate", "Serialize", "ValidateCompatibility", "UnserializeType", "ValidateType", "SerializeType", "ReflectedType", "TypeID"), false, true)
			},
		},
	})
	register(&PropSpec{
		ID:          "C04",
		Explanation: "R-ASSERT over functions reachable from the data API",
		Assumptions: []string{"A1-A4 (DESIGN §3.0.5)"},
		Rules: []func(*Ctx){
			func(c *Ctx) { c.ruleAssert("R-ASSERT", c.scopeData()) },
			func(c *Ctx) { c.ruleNilGuard("R-NILGUARD", c.scopeData()) },
			func(c *Ctx) { c.ruleMapNil("R-MAPNIL", c.scopeAll()) },
		},
	})
}
