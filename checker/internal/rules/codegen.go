package rules

import (
	"go/ast"
	"go/constant"
	"go/importer"
	"go/parser"
	"go/token"
	"go/types"
	"golang.org/x/tools/go/ssa/ssautil"
	"sort"
	"strings"

	"golang.org/x/tools/go/ssa"

	"verifcheck/internal/core"
)

// Rules for the code generator (module `codegen`, C19).

func isOsArgs(v ssa.Value) bool {
	// a parameter of an unexported function that every caller fills with os.Args (the worker of an entry/worker pair)
	if p, isParam := v.(*ssa.Parameter); isParam && p.Parent() != nil {
		sites := core.PlainSites(p.Parent())
		idx := -1
		for i, q := range p.Parent().Params {
			if q == p {
				idx = i
			}
		}
		if len(sites) == 0 || idx < 0 {
			return false
		}
		for _, call := range sites {
			if idx >= len(call.Call.Args) || !isOsArgs(call.Call.Args[idx]) {
				return false
			}
		}
		return true
	}
	ld, ok := v.(*ssa.UnOp)
	if !ok || ld.Op != token.MUL {
		return false
	}
	g, ok := ld.X.(*ssa.Global)
	return ok && g.Name() == "Args" && g.Pkg != nil && g.Pkg.Pkg.Path() == "os"
}

// lenArgsAtLeast: a dominating condition establishes len(os.Args) > k.
func lenArgsAtLeast(b *ssa.BasicBlock, k int64) bool {
	for _, cond := range core.CondsAt(b) {
		bin, ok := cond.V.(*ssa.BinOp)
		if !ok {
			continue
		}
		lhsLen := func(v ssa.Value) bool {
			call, ok := v.(*ssa.Call)
			if !ok {
				return false
			}
			bi, ok := call.Call.Value.(*ssa.Builtin)
			return ok && bi.Name() == "len" && isOsArgs(call.Call.Args[0])
		}
		if lhsLen(bin.X) {
			n, ok := core.ConstInt(bin.Y)
			if !ok {
				continue
			}
			switch {
			case bin.Op == token.GTR && cond.True && n >= k,
				bin.Op == token.GEQ && cond.True && n >= k+1,
				bin.Op == token.LEQ && !cond.True && n >= k,
				bin.Op == token.LSS && !cond.True && n >= k+1,
				bin.Op == token.EQL && cond.True && n >= k+1:
				return true
			}
		}
		if lhsLen(bin.Y) {
			n, ok := core.ConstInt(bin.X)
			if !ok {
				continue
			}
			switch {
			case bin.Op == token.LSS && cond.True && n >= k,
				bin.Op == token.LEQ && cond.True && n >= k+1,
				bin.Op == token.GEQ && !cond.True && n >= k,
				bin.Op == token.GTR && !cond.True && n >= k+1:
				return true
			}
		}
	}
	return false
}

func (c *Ctx) ruleArgsIndex(rule string) {
	g := c.Gen
	n := 0
	for _, fn := range g.Funcs {
		for _, b := range fn.Blocks {
			for _, in := range b.Instrs {
				ia, ok := in.(*ssa.IndexAddr)
				if !ok || !isOsArgs(ia.X) {
					continue
				}
				n++
				k, isConst := core.ConstInt(ia.Index)
				key0 := key(rule, g.Key(fn), sprintf("os.Args[%d]", k))
				pos := g.InstrPos(ia)
				switch {
				case !isConst:
					c.R.Bad(rule, key(rule, g.Key(fn), "os.Args[variable]"), pos, "variable index into os.Args", "not decided by this rule (undecided = fail)")
				case lenArgsAtLeast(b, k):
					c.R.Ok(rule, key0, pos, "positional argument read", sprintf("dominated by a test establishing len(os.Args) > %d", k))
				case k <= 1:
					c.R.Add(core.Obligation{Rule: rule, Key: key0, Pos: pos, What: "positional argument read", Status: core.Info,
						How: "os.Args[1] is the schema file, which the property presupposes ('for every schema file'); os.Args[0] always exists"})
				default:
					c.R.Bad(rule, key0, pos, sprintf("os.Args[%d] read without checking that the argument was given", k),
						"running the generator without the optional argument panics with index out of range")
				}
			}
		}
	}
	if n == 0 {
		c.R.Unresolved(rule, "positional argument reads of the generator")
	}
}

// constantTable: v is the load of a package-level map[string]string that is stored once, in the package initialiser, with
// a map made there and filled with constant keys and values, and that nothing else writes: its contents.
func constantTable(g *core.Module, v ssa.Value) map[string]string {
	ld, ok := v.(*ssa.UnOp)
	if !ok {
		return nil
	}
	global, ok := ld.X.(*ssa.Global)
	if !ok {
		return nil
	}
	var made ssa.Value
	stores := 0
	for _, fn := range g.Funcs {
		for _, b := range fn.Blocks {
			for _, in := range b.Instrs {
				switch x := in.(type) {
				case *ssa.Store:
					if x.Addr == ssa.Value(global) {
						stores++
						if fn.Name() != "init" {
							return nil
						}
						made = x.Val
					}
				case *ssa.MapUpdate:
					// a write through a load of the global anywhere: the table is not constant
					if l2, isLoad := x.Map.(*ssa.UnOp); isLoad && l2.X == ssa.Value(global) {
						return nil
					}
				}
			}
		}
	}
	mk, ok := made.(*ssa.MakeMap)
	if !ok || stores != 1 || mk.Referrers() == nil {
		return nil
	}
	out := map[string]string{}
	for _, ref := range *mk.Referrers() {
		mu, isUpdate := ref.(*ssa.MapUpdate)
		if !isUpdate {
			continue
		}
		k, okK := core.ConstString(mu.Key)
		val, okV := core.ConstString(mu.Value)
		if !okK || !okV {
			return nil
		}
		out[k] = val
	}
	return out
}

// ruleCodegenFlow: the ignore argument is compared with the object ID itself, and the type mapping is the documented one.
func (c *Ctx) ruleCodegenFlow(rule string) {
	g := c.Gen
	found := 0
	for _, fn := range g.Funcs {
		for _, b := range fn.Blocks {
			for _, in := range b.Instrs {
				bin, ok := in.(*ssa.BinOp)
				if !ok || (bin.Op != token.EQL && bin.Op != token.NEQ) {
					continue
				}
				var other ssa.Value
				isArg := func(v ssa.Value) bool {
					ld, ok := v.(*ssa.UnOp)
					if !ok {
						return false
					}
					ia, ok := ld.X.(*ssa.IndexAddr)
					return ok && isOsArgs(ia.X)
				}
				if isArg(bin.X) {
					other = bin.Y
				} else if isArg(bin.Y) {
					other = bin.X
				} else {
					continue
				}
				found++
				k := key(rule, g.Key(fn), "ignore argument compared with the object ID")
				okID := false
				switch x := other.(type) {
				case *ssa.Extract: // range key
					if _, isNext := x.Tuple.(*ssa.Next); isNext && x.Index == 1 {
						okID = true
					}
				case *ssa.UnOp: // element of the (sorted) ID slice
					if _, isIdx := x.X.(*ssa.IndexAddr); isIdx {
						okID = true
					}
				}
				if okID {
					c.R.Ok(rule, k, g.InstrPos(bin), "ignore test", "the operand is the object's map key (range key / element of the key slice), not a derived name")
				} else {
					c.R.Bad(rule, k, g.InstrPos(bin), "the ignore argument is compared with a derived value instead of the object ID",
						"objects whose ID differs from the derived value (e.g. lower-case first letter vs. title-cased type name) are not ignored / wrongly dropped")
				}
			}
		}
	}
	if found == 0 {
		c.R.Unresolved(rule, "comparison with the ignore argument")
	}
	// type mapping: integer -> int64, float -> float64 are required; whatever a type ID of the SDK maps to (itself by
	// the pass-through default) must not be a Go keyword - the generated field would not parse (`Labels map`)
	if fn := trampolineOf(g, g.FuncByKey["main.parseType"]); fn != nil {
		want := map[string]string{"integer": "int64", "float": "float64"}
		got := map[string]string{}
		passThrough := false
		for _, r := range core.ReturnsOf(fn) {
			rv := core.RetVal(r, 0)
			if rv == ssa.Value(fn.Params[0]) {
				passThrough = true
				continue
			}
			// a lookup table in place of the switch: `if t, ok := table[id]; ok { return t }` with a package-level map that
			// is filled once, with constants, when the package is initialised
			if ex, isEx := rv.(*ssa.Extract); isEx && ex.Index == 0 {
				if lk, isLk := ex.Tuple.(*ssa.Lookup); isLk && lk.CommaOk && lk.Index == ssa.Value(fn.Params[0]) {
					for in, out := range constantTable(g, lk.X) {
						got[in] = out
					}
					continue
				}
			}
			out, ok := core.ConstString(rv)
			if !ok {
				continue
			}
			for _, cond := range r.Conds() {
				if x, in, eq, ok := core.EqConst(cond); ok && eq && x == ssa.Value(fn.Params[0]) {
					got[in] = out
				}
			}
		}
		k := key(rule, "main.parseType", "integer->int64, float->float64")
		ok := true
		for a, b := range want {
			if got[a] != b {
				ok = false
			}
		}
		if ok {
			c.R.Ok(rule, k, g.Pos(fn.Pos()), "type mapping", "evaluated from the switch")
		} else {
			c.R.Bad(rule, k, g.Pos(fn.Pos()), "type mapping lost integer->int64 or float->float64", sprintf("evaluated mapping: %v", got))
		}
		// the SDK's type IDs
		if sp := c.M.Types["schema"]; sp != nil {
			var ids []string
			for _, name := range sp.Scope().Names() {
				if cst, ok := sp.Scope().Lookup(name).(*types.Const); ok {
					if n, ok := cst.Type().(*types.Named); ok && n.Obj().Name() == "TypeID" {
						ids = append(ids, constant.StringVal(cst.Val()))
					}
				}
			}
			sort.Strings(ids)
			for _, id := range ids {
				out, mapped := got[id]
				if !mapped {
					if !passThrough {
						continue
					}
					out = id
				}
				k := key(rule, "main.parseType", "type ID \""+id+"\" maps to something that can stand as a Go type")
				if token.IsKeyword(out) {
					c.R.Bad(rule, k, g.Pos(fn.Pos()), "type ID \""+id+"\" is emitted as the Go keyword `"+out+"`",
						"the generated field `X "+out+"` does not parse: format.Source fails and the generator panics for any schema with a "+id+"-typed property")
				} else {
					c.R.Ok(rule, k, g.Pos(fn.Pos()), "emitted type name", "\""+id+"\" -> "+out)
				}
			}
		}
	} else {
		c.R.Unresolved(rule, "function main.parseType")
	}
	// ref -> referenced id, otherwise the type id
	if fn := trampolineOf(g, g.FuncByKey["main.mustGenerateTypeDef"]); fn != nil {
		k := key(rule, "main.mustGenerateTypeDef", "field type is the referenced ID for refs and the type ID otherwise")
		// The value printed as a field's type is a phi. Its leaves: the reference's ID (as it is, or through the function
		// that also makes the declared name of an object) where Type.TypeID == "ref" holds, parseType(Type.TypeID) where
		// it does not. Nothing else.
		isRefCond := func(b *ssa.BasicBlock, want bool) bool {
			for _, cond := range core.CondsAt(b) {
				if x, s, eq, ok2 := core.EqConst(cond); ok2 && eq == want && s == "ref" && strings.HasSuffix(g.ValPath(x), ".Type.TypeID") {
					return true
				}
			}
			return false
		}
		// the function that makes the declared name: the callee whose result is printed in the `type %v struct` header
		var nameFn *ssa.Function
		var fieldType ssa.Value
		for _, b := range fn.Blocks {
			for _, in := range b.Instrs {
				pc, isCall := in.(*ssa.Call)
				if !isCall || !strings.HasSuffix(core.StaticCalleeName(&pc.Call), "fmt.Fprintf") || len(pc.Call.Args) < 3 {
					continue
				}
				format, _ := core.ConstString(pc.Call.Args[1])
				args := variadicElems(pc.Call.Args[2])
				switch {
				case strings.Contains(format, "type %v struct") && len(args) >= 1:
					if nc, ok := core.Unwrap(args[0]).(*ssa.Call); ok {
						nameFn = nc.Call.StaticCallee()
					}
				case strings.Contains(format, "json:") && len(args) >= 2:
					fieldType = core.Unwrap(args[1])
				}
			}
		}
		ok, why := fieldType != nil, "the Fprintf that prints a field was not found"
		nID, nDeclared, nTID := 0, 0, 0
		declaredGuarded, rawGuarded, rawNotKeyword := true, true, true
		_ = declaredGuarded
		if ok {
			why = ""
			seen := map[ssa.Value]bool{}
			var leaves func(v ssa.Value, at, to *ssa.BasicBlock)
			leaves = func(v ssa.Value, at, to *ssa.BasicBlock) {
				if seen[v] {
					return
				}
				seen[v] = true
				if phi, isPhi := v.(*ssa.Phi); isPhi {
					for i, e := range phi.Edges {
						leaves(e, phi.Block().Preds[i], phi.Block())
					}
					return
				}
				declaredOutcome := func(want bool) bool {
					conds := core.CondsAt(at)
					if to != nil {
						conds = append(conds, edgeCond(at, to)...)
					}
					for _, cond := range conds {
						if ex, isEx := cond.V.(*ssa.Extract); isEx && ex.Index == 1 && cond.True == want {
							if lk, isLk := ex.Tuple.(*ssa.Lookup); isLk && lk.CommaOk && strings.HasSuffix(g.ValPath(lk.X), ".Objects") && strings.HasSuffix(g.ValPath(lk.Index), ".Type.Id") {
								return true
							}
						}
					}
					return false
				}
				keywordOutcome := func(want bool) bool {
					conds := core.CondsAt(at)
					if to != nil {
						conds = append(conds, edgeCond(at, to)...)
					}
					for _, cond := range conds {
						if kc, isCall := cond.V.(*ssa.Call); isCall && cond.True == want && core.StaticCalleeName(&kc.Call) == "go/token.IsKeyword" &&
							len(kc.Call.Args) == 1 && strings.HasSuffix(g.ValPath(kc.Call.Args[0]), ".Type.Id") {
							return true
						}
					}
					return false
				}
				if pc, isCall := v.(*ssa.Call); isCall && len(pc.Call.Args) == 1 {
					callee := pc.Call.StaticCallee()
					arg := g.ValPath(pc.Call.Args[0])
					switch {
					case callee != nil && strings.HasSuffix(core.StaticCalleeName(&pc.Call), "parseType") && strings.HasSuffix(arg, ".Type.TypeID"):
						nTID++
						if !isRefCond(at, false) {
							ok, why = false, "the type mapping is used where Type.TypeID may be \"ref\""
						}
						return
					case callee != nil && callee == nameFn && strings.HasSuffix(arg, ".Type.Id"):
						nDeclared++
						if !isRefCond(at, true) {
							ok, why = false, "a referenced ID is used where Type.TypeID need not be \"ref\""
						}
						if !declaredOutcome(true) {
							declaredGuarded = false
						}
						return
					}
				}
				if strings.HasSuffix(g.ValPath(v), ".Type.Id") {
					nID++
					if !isRefCond(at, true) {
						ok, why = false, "a referenced ID is used where Type.TypeID need not be \"ref\""
					}
					if !declaredOutcome(false) {
						rawGuarded = false
					}
					if !keywordOutcome(false) {
						rawNotKeyword = false
					}
					return
				}
				// a value that travelled through a local collection of records (the fields of a struct, computed in one
				// loop and printed in the next): what was put into that field of the records
				if srcs, through := core.RecordSources(v); through {
					for _, src := range srcs {
						if in, isInstr := src.(ssa.Instruction); isInstr {
							leaves(src, in.Block(), nil)
						} else {
							leaves(src, at, to)
						}
					}
					return
				}
				// a helper of the generator that computes the field type: its returns are the leaves
				if pc, isCall := v.(*ssa.Call); isCall {
					if callee := pc.Call.StaticCallee(); callee != nil && len(callee.Blocks) > 0 && callee.Signature.Results().Len() == 1 && g.FuncByKey[g.Key(callee)] == callee {
						for _, r := range core.ReturnsOf(callee) {
							leaves(core.RetVal(r, 0), r.Block(), r.Next())
						}
						return
					}
				}
				ok, why = false, "the field type can be "+g.ValPath(v)+", which is neither the referenced ID nor the mapped type ID"
			}
			leaves(fieldType, fieldType.(ssa.Instruction).Block(), nil)
			if ok && (nID+nDeclared == 0 || nTID == 0) {
				ok, why = false, sprintf("%d leaves from Type.Id, %d from parseType(Type.TypeID)", nID+nDeclared, nTID)
			}
		}
		if ok {
			c.R.Ok(rule, k, g.Pos(fn.Pos()), "field type selection", sprintf("phi leaves: %d x Type.Id as it is, %d x the declared name of Type.Id (all under Type.TypeID == \"ref\"), %d x parseType(Type.TypeID) otherwise", nID, nDeclared, nTID))
		} else {
			c.R.Bad(rule, k, g.Pos(fn.Pos()), "field type selection is not `referenced ID for refs, type ID otherwise`", why)
		}
		// an object of the schema is declared under a derived name (first letter in upper case): a reference to it must use
		// that name, or it names a type the output does not declare (and, for an ID that is a Go keyword, does not parse)
		k3 := key(rule, "main.mustGenerateTypeDef", "a reference to an object of the schema uses the name the object is declared under")
		switch {
		case nameFn == nil:
			c.R.Ok(rule, k3, g.Pos(fn.Pos()), "name of a referenced object", "objects are declared under their ID as it is")
		case nDeclared > 0 && (nID == 0 || rawGuarded):
			// (the declared name may be used for other IDs as well - one that is a Go keyword; what matters is that the
			// raw ID is never used for a declared object)
			c.R.Ok(rule, k3, g.Pos(fn.Pos()), "name of a referenced object", "the field type is the ID as it is only where the ID was not found in the schema's object table; everywhere else it is "+nameFn.Name()+"(ID), the function that names the declaration")
		default:
			c.R.Bad(rule, k3, g.Pos(fn.Pos()), "a reference to an object of the schema is typed with the raw ID, not with the name the object is declared under",
				"the struct is declared as "+nameFn.Name()+"(id) but referred to as id: `pod` is declared `type Pod struct` and referenced as the undeclared `pod`; for an object named like a Go keyword (`map`, `type`, `range`) the output does not parse and the generator panics")
		}
		// a referenced ID that is not declared here (a reference into another namespace) is emitted as it is - unless it is
		// a Go keyword, which cannot stand where a type belongs: format.Source refuses the output and the generator panics
		k4 := key(rule, "main.mustGenerateTypeDef", "a referenced ID that is a Go keyword is never emitted as it is")
		switch {
		case !ok:
			// reported above
		case nID == 0:
			c.R.Ok(rule, k4, g.Pos(fn.Pos()), "name of a referenced object", "no field type is a referenced ID as it is")
		case rawNotKeyword:
			c.R.Ok(rule, k4, g.Pos(fn.Pos()), "name of a referenced object", "the ID as it is is used only where go/token.IsKeyword(ID) was found false")
		default:
			c.R.Bad(rule, k4, g.Pos(fn.Pos()), "a referenced ID can be emitted as it is although it is a Go keyword",
				"a reference to an object that is not declared in this file and is called `range`, `type` or `map` there puts the bare keyword where a type belongs: format.Source fails and the generator panics")
		}
		// the declared name changes the first letter of the ID and nothing else: a case mapping applied to the whole ID
		// (title-casing starts a new word after every ideograph, full case mapping turns one letter into several) makes
		// different IDs collapse into one name
		if nameFn != nil {
			k6 := key(rule, g.Key(nameFn), "the declared name is not made by a case mapping of the whole ID")
			bad := ""
			for _, b := range nameFn.Blocks {
				for _, in := range b.Instrs {
					pc, isCall := in.(*ssa.Call)
					if !isCall || len(nameFn.Params) == 0 {
						continue
					}
					name := core.StaticCalleeName(&pc.Call)
					if pc.Call.IsInvoke() {
						name = pc.Call.Method.FullName()
					}
					mapsCase := strings.HasPrefix(name, "strings.To") || name == "strings.Title" || strings.Contains(name, "golang.org/x/text/cases") || strings.HasPrefix(name, "bytes.To") || name == "bytes.Title"
					if !mapsCase {
						continue
					}
					for _, a := range pc.Call.Args {
						if core.Unwrap(a) == ssa.Value(nameFn.Params[0]) {
							bad = g.InstrPos(pc) + " (" + name + ")"
						}
					}
				}
			}
			if bad == "" {
				c.R.Ok(rule, k6, g.Pos(nameFn.Pos()), "declared name of an object or property", "no case-mapping function of strings, bytes or x/text/cases receives the whole ID")
			} else {
				c.R.Bad(rule, k6, bad, "the declared name is made by a case mapping of the whole ID",
					"IDs that differ only behind the first letter collapse into one Go name (a漢b and a漢B, stb and ﬆb): two structs of one name, two fields of one name, a reference that names the wrong struct")
			}
		}
		// what the generator prints goes through format.Source: an argument of the command line (a file name, the ignore
		// argument) printed into it must be quoted, or a line feed, a byte order mark or invalid UTF-8 in it breaks the source
		{
			k5 := key(rule, "main.mustGenerateTypeDef", "command-line arguments are printed into the source only quoted")
			bad, n := "", 0
			fromArgs := func(v ssa.Value) bool {
				return derivedFrom(v, func(x ssa.Value) bool {
					return isOsArgs(x)
				})
			}
			for _, b := range fn.Blocks {
				for _, in := range b.Instrs {
					pc, isCall := in.(*ssa.Call)
					if !isCall {
						continue
					}
					name := core.StaticCalleeName(&pc.Call)
					switch {
					case strings.HasSuffix(name, "fmt.Fprintf") && len(pc.Call.Args) >= 3:
						format, isConst := core.ConstString(pc.Call.Args[1])
						args := variadicElems(pc.Call.Args[2])
						verbs := formatVerbs(format)
						for i, a := range args {
							if a == nil || !fromArgs(a) {
								continue
							}
							n++
							if !isConst || i >= len(verbs) || verbs[i] != 'q' {
								bad = g.InstrPos(pc)
							}
						}
					case (strings.HasSuffix(name, "fmt.Fprint") || strings.HasSuffix(name, "fmt.Fprintln")) && len(pc.Call.Args) >= 2:
						for _, a := range variadicElems(pc.Call.Args[1]) {
							if a != nil && fromArgs(a) {
								n++
								bad = g.InstrPos(pc)
							}
						}
					}
				}
			}
			switch {
			case bad != "":
				c.R.Bad(rule, k5, bad, "a command-line argument is printed into the generated source as it is",
					"a schema file name or an ignore argument with a line feed, a byte order mark or bytes that are not UTF-8 ends the header comment or makes the source illegal: format.Source fails and the generator panics on a valid schema")
			default:
				c.R.Ok(rule, k5, g.Pos(fn.Pos()), "header comment", sprintf("%d printed value(s) derived from os.Args, each under the verb %%q", n))
			}
		}
		// the type mapping applies to type IDs only: a referenced object's ID must not go through it
		k2 := key(rule, "main.mustGenerateTypeDef", "parseType is never applied to a referenced object's ID")
		bad := ""
		var derivesFromRefID func(v ssa.Value, d int) bool
		derivesFromRefID = func(v ssa.Value, d int) bool {
			if d > 4 {
				return false
			}
			if strings.HasSuffix(g.ValPath(v), ".Type.Id") {
				return true
			}
			if phi, isPhi := v.(*ssa.Phi); isPhi {
				for _, e := range phi.Edges {
					if derivesFromRefID(e, d+1) {
						return true
					}
				}
			}
			return false
		}
		for _, b := range fn.Blocks {
			for _, in := range b.Instrs {
				if pc, isCall := in.(*ssa.Call); isCall && strings.HasSuffix(core.StaticCalleeName(&pc.Call), "parseType") && len(pc.Call.Args) == 1 {
					if derivesFromRefID(pc.Call.Args[0], 0) {
						bad = g.InstrPos(pc)
					}
				}
			}
		}
		if bad == "" {
			c.R.Ok(rule, k2, g.Pos(fn.Pos()), "type mapping of field types", "no call of parseType receives a reference ID")
		} else {
			c.R.Bad(rule, k2, bad, "the integer/float type mapping is applied to referenced object IDs",
				"a reference to an object named \"integer\" or \"float\" is emitted as int64 / float64 instead of the object's struct")
		}
	}
}

// R-TRUNC (C19: "running it again on the same input produces byte-identical output"): the generator's output file must
// be replaced, not overwritten in place. Every call that opens or writes a file is an obligation: os.WriteFile and
// os.Create truncate; os.OpenFile must carry O_TRUNC (or O_APPEND / O_EXCL, which cannot leave a stale tail) in a
// constant flag argument. A file opened for writing without truncation keeps the tail of a longer previous output.
func (c *Ctx) ruleTrunc(rule string) {
	g := c.Gen
	if g == nil {
		c.R.Unresolved(rule, "code generator module")
		return
	}
	n := 0
	for _, fn := range g.SortedFuncs(allFuncs(g)) {
		cnt := 0
		for _, b := range fn.Blocks {
			for _, in := range b.Instrs {
				call, ok := in.(*ssa.Call)
				if !ok {
					continue
				}
				name := core.StaticCalleeName(&call.Call)
				switch name {
				case "os.WriteFile", "os.Create", "io/ioutil.WriteFile":
					n++
					cnt++
					c.R.Ok(rule, key(rule, g.Key(fn), sprintf("%s #%d", name, cnt)), g.InstrPos(call), "output file written", name+" truncates the file")
				case "os.OpenFile":
					n++
					cnt++
					k := key(rule, g.Key(fn), sprintf("os.OpenFile #%d", cnt))
					flags, isConst := core.ConstInt(call.Call.Args[1])
					// the os.O_* constants of the configuration being analysed (they differ between operating systems)
					oWRONLY, oRDWR, oAPPEND, oEXCL, oTRUNC := osConst(g, "O_WRONLY"), osConst(g, "O_RDWR"), osConst(g, "O_APPEND"), osConst(g, "O_EXCL"), osConst(g, "O_TRUNC")
					if oTRUNC == 0 || oWRONLY == 0 {
						c.R.Unresolved(rule, "os.O_TRUNC / os.O_WRONLY constants")
						continue
					}
					switch {
					case !isConst:
						c.R.Bad(rule, k, g.InstrPos(call), "os.OpenFile with non-constant flags", "undecided = fail")
					case flags&(oWRONLY|oRDWR) == 0:
						c.R.Ok(rule, k, g.InstrPos(call), "file opened", "opened read-only")
					case flags&(oTRUNC|oAPPEND|oEXCL) != 0:
						c.R.Ok(rule, k, g.InstrPos(call), "output file opened", "O_TRUNC / O_APPEND / O_EXCL set")
					default:
						c.R.Bad(rule, k, g.InstrPos(call), "output file opened for writing without O_TRUNC",
							"when the new output is shorter than the file already there, the old tail survives: the result is not valid Go and depends on the directory's history")
					}
				}
			}
		}
	}
	c.R.Note("%s: %d file-writing calls in the generator", rule, n)
}

func allFuncs(m *core.Module) map[*ssa.Function]bool {
	out := map[*ssa.Function]bool{}
	for _, f := range m.Funcs {
		out[f] = true
	}
	return out
}

func osConst(m *core.Module, name string) int64 {
	p := m.Prog.ImportedPackage("os")
	if p == nil || p.Pkg == nil {
		return 0
	}
	cst, ok := p.Pkg.Scope().Lookup(name).(*types.Const)
	if !ok {
		return 0
	}
	v, _ := constant.Int64Val(cst.Val())
	return v
}

// R-RUNESLICE (C19 "for every schema whose names are valid identifiers ... emits gofmt-valid Go"): identifiers may
// start with any Unicode letter. Slicing a string at a constant byte offset (s[:1], s[1:]) cuts a multi-byte first
// letter in half; case-mapping the half yields U+FFFD and a dangling continuation byte, the output no longer parses
// and the generator panics. Every slice of a string-typed value at a non-zero constant bound in the generator is an
// obligation; discharged when, on every path, the leading byte was compared with utf8.RuneSelf / 0x80 (it is ASCII).
// Offsets computed from the text (strings.Index, utf8.DecodeRuneInString) are not constant and are not obligations.
func (c *Ctx) ruleRuneSlice(rule string) {
	g := c.Gen
	if g == nil {
		c.R.Unresolved(rule, "code generator module")
		return
	}
	if msg := selfTestRuneSlice(); msg != "" {
		c.R.Unresolved(rule, "self-test of the slice classifier failed: "+msg)
		return
	}
	c.R.Ok(rule, key(rule, "self-test", "constant-offset string slice flagged, rune-aware variant not"), "-", "classifier exercised on the built-in positive / negative example", "1 flagged, 1 discharged, 1 not an obligation, as expected")
	n := 0
	for _, fn := range g.SortedFuncs(allFuncs(g)) {
		for i, s := range classifyStringSlices(fn) {
			n++
			k := key(rule, g.Key(fn), sprintf("string slice at a constant byte offset #%d", i+1))
			if s.ok {
				c.R.Ok(rule, k, g.InstrPos(s.in), "byte-offset slice of text", s.reason)
			} else {
				c.R.Bad(rule, k, g.InstrPos(s.in), "a string is cut at a constant byte offset", s.reason)
			}
		}
	}
	c.R.Note("%s: %d constant-offset string slices in the generator", rule, n)
}

type strSliceSite struct {
	in     *ssa.Slice
	ok     bool
	reason string
}

func classifyStringSlices(fn *ssa.Function) []strSliceSite {
	var out []strSliceSite
	for _, b := range fn.Blocks {
		for _, in := range b.Instrs {
			sl, ok := in.(*ssa.Slice)
			if !ok {
				continue
			}
			bt, ok := sl.X.Type().Underlying().(*types.Basic)
			if !ok || bt.Info()&types.IsString == 0 {
				continue
			}
			constBound := false
			for _, bd := range []ssa.Value{sl.Low, sl.High} {
				if bd == nil {
					continue
				}
				if k, isC := core.ConstInt(bd); isC && k != 0 {
					constBound = true
				}
			}
			if !constBound {
				continue
			}
			// ASCII fact: s[0] < 0x80 (or < utf8.RuneSelf) on every path
			est := func(cond core.Cond) bool {
				bo, ok := cond.V.(*ssa.BinOp)
				if !ok {
					return false
				}
				isFirstByte := func(v ssa.Value) bool {
					for {
						cv, ok := v.(*ssa.Convert)
						if !ok {
							break
						}
						v = cv.X
					}
					var base, index ssa.Value
					switch lk := v.(type) {
					case *ssa.Index:
						base, index = lk.X, lk.Index
					case *ssa.Lookup:
						base, index = lk.X, lk.Index
					default:
						return false
					}
					if base != sl.X {
						return false
					}
					i, isC := core.ConstInt(index)
					return isC && i == 0
				}
				k, isC := core.ConstInt(bo.Y)
				if !isC || !isFirstByte(bo.X) {
					return false
				}
				switch bo.Op {
				case token.LSS:
					return cond.True && k <= 0x80
				case token.GEQ:
					return !cond.True && k <= 0x80
				case token.LEQ:
					return cond.True && k < 0x80
				case token.GTR:
					return !cond.True && k < 0x80
				}
				return false
			}
			if core.MustHold(fn, est)[b] {
				out = append(out, strSliceSite{sl, true, "on every path the first byte was found below utf8.RuneSelf: the cut is at a character boundary"})
			} else {
				out = append(out, strSliceSite{sl, false, "the offset counts bytes, the text is UTF-8: a first letter such as 'ö' or 'δ' (valid in Go identifiers) is cut in half, strings.ToUpper turns the half into U+FFFD, format.Source rejects the output and the generator panics"})
			}
		}
	}
	return out
}

const runeSliceExample = `package p
import "unicode/utf8"
func bad(s string) string { return s[:1] }
func good(s string) string {
	if s[0] < utf8.RuneSelf { return s[1:] }
	return s
}
func none(s string) string {
	_, n := utf8.DecodeRuneInString(s)
	return s[n:]
}
`

var runeSliceSelfTest *string

func selfTestRuneSlice() string {
	if runeSliceSelfTest != nil {
		return *runeSliceSelfTest
	}
	res := func() string {
		fset := token.NewFileSet()
		f, err := parser.ParseFile(fset, "p.go", runeSliceExample, 0)
		if err != nil {
			return err.Error()
		}
		pkg := types.NewPackage("p", "p")
		sp, _, err := ssautil.BuildPackage(&types.Config{Importer: importer.Default()}, fset, pkg, []*ast.File{f}, ssa.SanityCheckFunctions)
		if err != nil {
			return err.Error()
		}
		want := map[string][2]int{"bad": {1, 0}, "good": {1, 1}, "none": {0, 0}}
		for name, w := range want {
			fn := sp.Func(name)
			if fn == nil {
				return "missing " + name
			}
			sites := classifyStringSlices(fn)
			okN := 0
			for _, s := range sites {
				if s.ok {
					okN++
				}
			}
			if len(sites) != w[0] || okN != w[1] {
				return sprintf("example %s: %d sites, %d discharged; want %d, %d", name, len(sites), okN, w[0], w[1])
			}
		}
		return ""
	}()
	runeSliceSelfTest = &res
	return res
}

// variadicElems: the values stored into the backing array of a variadic argument slice (`slice t[:]` of `new [n]T`).
func variadicElems(v ssa.Value) []ssa.Value {
	sl, ok := v.(*ssa.Slice)
	if !ok {
		return nil
	}
	al, ok := sl.X.(*ssa.Alloc)
	if !ok {
		return nil
	}
	byIdx := map[int64]ssa.Value{}
	var max int64 = -1
	for _, r := range *al.Referrers() {
		ia, ok := r.(*ssa.IndexAddr)
		if !ok {
			continue
		}
		idx, isConst := core.ConstInt(ia.Index)
		if !isConst {
			continue
		}
		for _, r2 := range *ia.Referrers() {
			if st, ok := r2.(*ssa.Store); ok && st.Addr == ssa.Value(ia) {
				byIdx[idx] = st.Val
				if idx > max {
					max = idx
				}
			}
		}
	}
	var out []ssa.Value
	for i := int64(0); i <= max; i++ {
		out = append(out, byIdx[i])
	}
	return out
}

// R-YAMLNIL (C19 "finishes without panicking"): yaml decodes `key:` without a body, `key: null` and `key: ~` into a
// nil pointer when the map's element type is a pointer. In the generator, a field access through a pointer that was
// read from such a map (lookup, range value, or a phi of those with fresh allocations) needs a nil test on the way.
func (c *Ctx) ruleYamlNil(rule string) {
	g := c.Gen
	fromPtrMap := func(v ssa.Value) bool {
		seen := map[ssa.Value]bool{}
		var walk func(v ssa.Value) bool
		walk = func(v ssa.Value) bool {
			if seen[v] {
				return false
			}
			seen[v] = true
			switch x := v.(type) {
			case *ssa.Lookup:
				if m, ok := x.X.Type().Underlying().(*types.Map); ok {
					_, isPtr := m.Elem().Underlying().(*types.Pointer)
					return isPtr
				}
			case *ssa.Extract:
				switch t := x.Tuple.(type) {
				case *ssa.Lookup:
					return x.Index == 0 && walk(t)
				case *ssa.Next:
					if rg, ok := t.Iter.(*ssa.Range); ok && x.Index == 2 {
						if m, ok := rg.X.Type().Underlying().(*types.Map); ok {
							_, isPtr := m.Elem().Underlying().(*types.Pointer)
							return isPtr
						}
					}
				}
			case *ssa.Phi:
				for _, e := range x.Edges {
					if walk(e) {
						return true
					}
				}
			}
			return false
		}
		return walk(v)
	}
	nonNilCond := func(conds []core.Cond, v ssa.Value) bool {
		for _, cond := range conds {
			if y, neq, ok := core.NilCmp(cond.V); ok && neq == cond.True && y == v {
				return true
			}
		}
		return false
	}
	var nonNil func(v ssa.Value, at *ssa.BasicBlock, depth int) bool
	nonNil = func(v ssa.Value, at *ssa.BasicBlock, depth int) bool {
		if depth > 4 {
			return false
		}
		switch x := v.(type) {
		case *ssa.Alloc:
			return true
		case *ssa.Phi:
			for i, e := range x.Edges {
				pred := x.Block().Preds[i]
				if nonNil(e, pred, depth+1) || nonNilCond(edgeCond(pred, x.Block()), e) {
					continue
				}
				return false
			}
			return len(x.Edges) > 0
		}
		return nonNilCond(core.CondsAt(at), v)
	}
	n := 0
	for _, fn := range g.Funcs {
		cnt := 0
		seenVal := map[ssa.Value]bool{}
		for _, b := range fn.Blocks {
			for _, in := range b.Instrs {
				fa, ok := in.(*ssa.FieldAddr)
				if !ok || !fromPtrMap(fa.X) || seenVal[fa.X] && nonNil(fa.X, b, 0) {
					continue
				}
				seenVal[fa.X] = true
				n++
				cnt++
				k := key(rule, g.Key(fn), sprintf("field access #%d through a pointer read from a decoded map", cnt))
				if nonNil(fa.X, b, 0) {
					c.R.Ok(rule, k, g.InstrPos(fa), "dereference of a map element of pointer type", "on every path the pointer was found non-nil or replaced by a fresh value")
				} else {
					c.R.Bad(rule, k, g.InstrPos(fa), "a pointer read from a yaml-decoded map is dereferenced without a nil test",
						"`name:` without a body (also `name: null`, `name: ~`) decodes to a nil pointer: the generator dies with a nil-pointer dereference for a schema whose names are all valid")
				}
			}
		}
	}
	if n == 0 {
		c.R.Ok(rule, key(rule, "generator", "no pointer-valued decoded maps"), "-", "decoded maps", "no field is accessed through a pointer read from a map")
	}
}

// formatVerbs: the verbs of a Printf format in argument order (flags, width and precision skipped; %% is no verb; an
// explicit argument index or a * makes the mapping unknown: nil).
func formatVerbs(format string) []byte {
	var out []byte
	for i := 0; i < len(format); i++ {
		if format[i] != '%' {
			continue
		}
		i++
		for i < len(format) && strings.ContainsRune("+-# 0123456789.", rune(format[i])) {
			i++
		}
		if i >= len(format) {
			break
		}
		switch format[i] {
		case '%':
		case '[', '*':
			return nil
		default:
			out = append(out, format[i])
		}
	}
	return out
}
