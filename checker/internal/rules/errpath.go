package rules

import (
	"go/token"
	"go/types"
	"sort"
	"strings"

	"golang.org/x/tools/go/ssa"

	"verifcheck/internal/core"
)

// R-ERRORIGIN (C17): every error that Unserialize / Validate of a schema type can return originates as a
// *ConstraintError. Origins are computed with interprocedural summaries: the error result of a function is, per
// return, a fresh error value (origin site), the error of a callee passed through (possibly via
// ConstraintErrorAddPathSegment / AddPathSegment), or a parameter.

type errOrigin struct {
	fn   *ssa.Function
	in   ssa.Instruction
	kind string // type name, "fmt.Errorf", library callee name
	ok   bool   // is a *ConstraintError
}

type errOrigins struct {
	c    *Ctx
	sum  map[*ssa.Function]map[*errOrigin]bool
	site map[ssa.Instruction]*errOrigin
	busy map[*ssa.Function]bool
}

func (c *Ctx) newErrOrigins() *errOrigins {
	return &errOrigins{c: c, sum: map[*ssa.Function]map[*errOrigin]bool{}, site: map[ssa.Instruction]*errOrigin{}, busy: map[*ssa.Function]bool{}}
}

func (eo *errOrigins) origin(fn *ssa.Function, in ssa.Instruction, kind string, ok bool) *errOrigin {
	if o, has := eo.site[in]; has {
		return o
	}
	o := &errOrigin{fn, in, kind, ok}
	eo.site[in] = o
	return o
}

func (eo *errOrigins) of(fn *ssa.Function) map[*errOrigin]bool {
	if s, ok := eo.sum[fn]; ok {
		return s
	}
	if eo.busy[fn] {
		return nil
	}
	eo.busy[fn] = true
	defer delete(eo.busy, fn)
	out := map[*errOrigin]bool{}
	ei := core.ErrorResultIndex(fn.Signature)
	if ei >= 0 {
		for _, r := range core.ReturnsOf(fn) {
			for o := range eo.ofValue(fn, core.RetVal(r, ei), r, 0) {
				out[o] = true
			}
		}
	}
	eo.sum[fn] = out
	return out
}

func (eo *errOrigins) ofValue(fn *ssa.Function, v ssa.Value, at ssa.Instruction, depth int) map[*errOrigin]bool {
	out := map[*errOrigin]bool{}
	if depth > 12 || v == nil {
		return out
	}
	c := eo.c
	add := func(m map[*errOrigin]bool) {
		for o := range m {
			out[o] = true
		}
	}
	switch x := v.(type) {
	case *ssa.Const:
		return out // nil
	case *ssa.MakeInterface:
		if _, isIface := x.X.Type().Underlying().(*types.Interface); isIface {
			add(eo.ofValue(fn, x.X, at, depth+1))
			return out
		}
		tn := typeStr(x.X.Type())
		if ld, ok := x.X.(*ssa.UnOp); ok && ld.Op == token.MUL {
			if g, ok := ld.X.(*ssa.Global); ok {
				// one error value shared by all rejections: AddPathSegment prepends in place
				out[eo.origin(fn, x, "shared package-level error value "+g.Name(), false)] = true
				return out
			}
		}
		out[eo.origin(fn, x, tn, tn == "*schema.ConstraintError")] = true
	case *ssa.ChangeInterface:
		add(eo.ofValue(fn, x.X, at, depth+1))
	case *ssa.Phi:
		for _, e := range x.Edges {
			add(eo.ofValue(fn, e, at, depth+1))
		}
	case *ssa.Extract:
		if call, ok := x.Tuple.(*ssa.Call); ok {
			add(eo.ofCall(fn, call, depth))
		}
	case *ssa.Call:
		add(eo.ofCall(fn, x, depth))
	case *ssa.UnOp:
		// load of a local error variable: union of stored values
		if al, ok := x.X.(*ssa.Alloc); ok {
			for _, r := range *al.Referrers() {
				if st, ok := r.(*ssa.Store); ok && st.Addr == ssa.Value(al) {
					add(eo.ofValue(fn, st.Val, at, depth+1))
				}
			}
		} else {
			out[eo.origin(fn, x, "error loaded from "+c.stable(fn, c.M.AddrPath(x.X)), false)] = true
		}
	case *ssa.Parameter:
		// the caller's error: accounted for at the call site
	case *ssa.TypeAssert:
		add(eo.ofValue(fn, x.X, at, depth+1))
	default:
		out[eo.origin(fn, at, "unclassified error value", false)] = true
	}
	return out
}

func (eo *errOrigins) ofCall(fn *ssa.Function, call *ssa.Call, depth int) map[*errOrigin]bool {
	out := map[*errOrigin]bool{}
	c := eo.c
	name := core.StaticCalleeName(&call.Call)
	// path-segment helpers return their argument (or the constraint error found inside it)
	if strings.HasSuffix(name, ".ConstraintErrorAddPathSegment") && len(call.Call.Args) >= 1 {
		return eo.ofValue(fn, call.Call.Args[0], call, depth+1)
	}
	if strings.HasSuffix(name, "ConstraintError).AddPathSegment") {
		out[eo.origin(fn, call, "*schema.ConstraintError", true)] = true
		return out
	}
	callees := c.M.Callees(&call.Call)
	if len(callees) == 0 {
		if call.Call.IsInvoke() {
			out[eo.origin(fn, call, "error from "+typeStr(call.Call.Value.Type())+"."+call.Call.Method.Name(), false)] = true
			return out
		}
		if name == "" {
			out[eo.origin(fn, call, "error from a user callback", false)] = true
			return out
		}
		out[eo.origin(fn, call, name, false)] = true
		return out
	}
	for _, callee := range callees {
		for o := range eo.of(callee) {
			out[o] = true
		}
		// callee returns one of its parameters: that is our argument
		ei := core.ErrorResultIndex(callee.Signature)
		if ei >= 0 {
			for _, r := range core.ReturnsOf(callee) {
				if p, ok := core.RetVal(r, ei).(*ssa.Parameter); ok {
					for i, q := range callee.Params {
						if q == p && i < len(call.Call.Args) {
							for o := range eo.ofValue(fn, call.Call.Args[i], call, depth+1) {
								out[o] = true
							}
						}
					}
				}
			}
		}
	}
	return out
}

func (c *Ctx) ruleErrOrigin(rule string) {
	eo := c.newErrOrigins()
	entries := c.entryData("Unserialize", "Validate", "UnserializeType", "ValidateType")
	type hit struct {
		o       *errOrigin
		entries map[string]bool
	}
	hits := map[*errOrigin]*hit{}
	for _, e := range entries {
		for o := range eo.of(e) {
			if hits[o] == nil {
				hits[o] = &hit{o, map[string]bool{}}
			}
			hits[o].entries[c.M.Key(e)] = true
		}
	}
	var list []*hit
	for _, h := range hits {
		list = append(list, h)
	}
	sort.Slice(list, func(i, j int) bool {
		a, b := list[i].o, list[j].o
		if c.M.Key(a.fn) != c.M.Key(b.fn) {
			return c.M.Key(a.fn) < c.M.Key(b.fn)
		}
		return a.in.Pos() < b.in.Pos()
	})
	perFn := map[string]int{}
	for _, h := range list {
		fk := c.M.Key(h.o.fn)
		perFn[fk+h.o.kind]++
		k := key(rule, fk, sprintf("error origin %s #%d", h.o.kind, perFn[fk+h.o.kind]))
		pos := c.M.InstrPos(h.o.in)
		switch {
		case h.o.ok:
			c.R.Ok(rule, k, pos, "error origin reachable from Unserialize/Validate", "a *ConstraintError: enclosing containers can prepend their path segment")
		case c.schemaModeOnly(h.o.fn, h.o.in):
			c.R.Add(core.Obligation{Rule: rule, Key: k, Pos: pos, What: "non-constraint error origin in schema-mode compatibility code", Status: core.Info,
				How: "only reached when the argument is itself a schema (dominated by a successful assertion to a schema type); C17 speaks of data rejected by Unserialize / Validate"})
		case strings.HasPrefix(h.o.kind, "shared package-level error value"):
			c.R.Bad(rule, k, pos, "a rejection returns a "+h.o.kind,
				"containers attach their path segment by mutating the error they receive (AddPathSegment prepends in place): a value shared between rejections accumulates the paths of all earlier rejections (the second one names elements of the first), and concurrent rejections race on it; reaches "+firstN(h.entries, 3))
		default:
			c.R.Bad(rule, k, pos, "rejection that is not a constraint error ("+h.o.kind+")",
				"errors.As(err, *ConstraintError) fails for it and containers cannot attach the path: the author cannot locate the offending element; reaches "+firstN(h.entries, 3))
		}
	}
	c.R.Floor(rule, 40)
}

// schemaModeOnly: the instruction (or every call site of its function, transitively for unexported helpers) is
// dominated by a successful type assertion of an `any` value to a schema type / interface.
func (c *Ctx) schemaModeOnly(fn *ssa.Function, in ssa.Instruction) bool {
	return c.schemaModeAt(fn, in.Block(), 0)
}

func (c *Ctx) schemaModeAt(fn *ssa.Function, b *ssa.BasicBlock, depth int) bool {
	if depth > 4 {
		return false
	}
	for _, cond := range core.CondsAt(b) {
		if t, ok := core.CommaOk(cond.V); ok && cond.True {
			if ta, ok := t.(*ssa.TypeAssert); ok && c.isSchemaType(ta.AssertedType) {
				return true
			}
		}
		// reflective schema probe: FieldByName(...).IsValid() on the argument
		if call, ok := cond.V.(*ssa.Call); ok && cond.True && core.StaticCalleeName(&call.Call) == "(reflect.Value).IsValid" {
			if inner, ok := call.Call.Args[0].(*ssa.Call); ok && core.StaticCalleeName(&inner.Call) == "(reflect.Value).FieldByName" {
				return true
			}
		}
	}
	// all call sites
	if ast_IsExported(fn.Name()) && fn.Parent() == nil && fn.Signature.Recv() == nil {
		return false
	}
	n := 0
	for _, g := range c.M.Funcs {
		for _, gb := range g.Blocks {
			for _, gi := range gb.Instrs {
				call, ok := gi.(*ssa.Call)
				if !ok {
					continue
				}
				for _, callee := range c.M.Callees(&call.Call) {
					if callee != fn {
						continue
					}
					if call.Call.IsInvoke() {
						return false
					}
					n++
					if !c.schemaModeAt(g, gb, depth+1) {
						return false
					}
				}
			}
		}
	}
	return n > 0
}

func (c *Ctx) isSchemaType(t types.Type) bool {
	if p, ok := t.(*types.Pointer); ok {
		t = p.Elem()
	}
	n, ok := t.(*types.Named)
	if !ok || n.Obj().Pkg() == nil || n.Obj().Pkg().Name() != "schema" {
		return false
	}
	if _, isIface := n.Underlying().(*types.Interface); isIface {
		return implementsByNameIface(n)
	}
	return c.serializableLike(n)
}

func implementsByNameIface(n *types.Named) bool {
	it := n.Underlying().(*types.Interface)
	for i := 0; i < it.NumMethods(); i++ {
		if it.Method(i).Name() == "TypeID" || it.Method(i).Name() == "ValidateCompatibility" {
			return true
		}
	}
	return false
}

// R-PATHSEG (C17): in every function reachable from Unserialize / Validate, when the error of a child operation
// (Unserialize / Validate / Serialize / ValidateCompatibility of another schema node) decides a rejecting return, the
// returned error is that error itself, or it passed through ConstraintErrorAddPathSegment. Building a new error from
// its text (or with it as Cause) hides the child's constraint error - and its path - from the containers above.
func (c *Ctx) rulePathSeg(rule string) {
	entries := c.entryData("Unserialize", "Validate", "UnserializeType", "ValidateType")
	reach := c.M.Reachable(entries, nil)
	childOps := map[string]bool{"Unserialize": true, "Validate": true, "Serialize": true, "ValidateCompatibility": true,
		"UnserializeType": true, "ValidateType": true, "SerializeType": true}
	containers := map[string]bool{"AbstractListSchema": true, "MapSchema": true, "ObjectSchema": true, "AnySchema": true}
	for _, fn := range c.M.SortedFuncs(reach) {
		fk := c.M.Key(fn)
		ei := core.ErrorResultIndex(fn.Signature)
		if ei < 0 {
			continue
		}
		recvT := ""
		if parts := strings.Split(fk, "."); len(parts) >= 3 {
			recvT = parts[1]
		}
		idx := 0
		for _, r := range core.ReturnsOf(fn) {
			// which child call's failure does this return belong to?
			var child *ssa.Call
			for _, cond := range r.Conds() {
				x, neq, ok := core.NilCmp(cond.V)
				if !ok || neq != cond.True {
					continue
				}
				var call *ssa.Call
				switch v := x.(type) {
				case *ssa.Call:
					call = v
				case *ssa.Extract:
					call, _ = v.Tuple.(*ssa.Call)
				}
				if call == nil || !childOps[c.calledMethodName(call)] {
					continue
				}
				// a call on the receiver itself (delegation to a sibling method) is not a child
				if !call.Call.IsInvoke() && len(call.Call.Args) > 0 && c.M.ValPath(call.Call.Args[0]) == fn.Params[0].Name() {
					continue
				}
				child = call
				// the failure was seen in a helper (the fact came with the outcome of the call cond.Via): here it is the
				// helper's error that stands for the child's - the helper's own return is examined where it is written
				if cond.Via != nil && call.Parent() != fn {
					child = cond.Via
				}
				break
			}
			if child == nil {
				continue
			}
			idx++
			e := core.RetVal(r, ei)
			k := key(rule, fk, sprintf("failure of child %s #%d", c.calledMethodName(child), idx))
			pos := c.M.InstrPos(r)
			childErr := func(v ssa.Value) bool {
				switch x := v.(type) {
				case *ssa.Extract:
					return x.Tuple == ssa.Value(child)
				case *ssa.Call:
					return x == child
				}
				return false
			}
			switch {
			case childErr(e):
				if containers[recvT] && blockInLoop(child.Block()) {
					c.R.Bad(rule, k, pos, "container returns an element's error without its path segment", "the path stops one level short: the index / key of the offending element is missing")
				} else {
					c.R.Ok(rule, k, pos, "child error passed on", "returned unchanged (pass-through kind or non-element child)")
				}
			case isAddSegOf(e, childErr):
				c.R.Ok(rule, k, pos, "child error passed on with a path segment", "ConstraintErrorAddPathSegment(child error, segment)")
			default:
				if c.schemaModeOnly(fn, r) {
					c.R.Add(core.Obligation{Rule: rule, Key: k, Pos: pos, What: "child error re-wrapped in schema-mode compatibility code", Status: core.Info,
						How: "only reached when the argument is itself a schema"})
					continue
				}
				c.R.Bad(rule, k, pos, "child error replaced by a new error", "the child's constraint error (and the path it accumulated) is hidden behind a freshly built error: the path reported to the author stops here")
			}
		}
	}
	c.R.Floor(rule, 14)
}

func isAddSegOf(e ssa.Value, childErr func(ssa.Value) bool) bool {
	call, ok := e.(*ssa.Call)
	if !ok || !strings.HasSuffix(core.StaticCalleeName(&call.Call), ".ConstraintErrorAddPathSegment") || len(call.Call.Args) < 1 {
		return false
	}
	return childErr(call.Call.Args[0])
}

// R-ELEMPATH (C17 "the returned error identifies that element: its path leads from the root to it"): a container that
// itself rejects one of its elements - an undeclared key, a discriminator that is missing, of the wrong type or not
// allowed - must end the error's path with that element, exactly as the error of a missing or invalid property ends
// with the property's name. Structurally: a ConstraintError literal whose message is formatted from
//
//	(1) the one-of's discriminator field name (the string field tagged `discriminator_field_name` of the receiver), or
//	(2) a parameter of the enclosing function that, at every call site, is a key of the data being processed (an element
//	    of reflect.Value.MapKeys(), a range key, or a type assertion of one), or
//	(3) such a key itself (the key the enclosing loop is at),
//
// also stores a Path.
func (c *Ctx) ruleElemPath(rule string) {
	isCE := func(t types.Type) bool {
		if p, ok := t.Underlying().(*types.Pointer); ok {
			t = p.Elem()
		}
		n, ok := t.(*types.Named)
		return ok && n.Obj().Name() == "ConstraintError"
	}
	discField := func(v ssa.Value) bool {
		ld, ok := v.(*ssa.UnOp)
		if !ok {
			return false
		}
		fa, ok := ld.X.(*ssa.FieldAddr)
		if !ok {
			return false
		}
		st := fieldsOfType(fa.X.Type())
		return st != nil && fa.Field < st.NumFields() && strings.Contains(st.Tag(fa.Field), `json:"discriminator_field_name"`)
	}
	var isDataKey func(v ssa.Value, depth int) bool
	isDataKey = func(v ssa.Value, depth int) bool {
		if depth > 5 {
			return false
		}
		switch x := v.(type) {
		case *ssa.MakeInterface:
			return isDataKey(x.X, depth+1)
		case *ssa.ChangeInterface:
			return isDataKey(x.X, depth+1)
		case *ssa.TypeAssert:
			return isDataKey(x.X, depth+1)
		case *ssa.Extract:
			if nx, ok := x.Tuple.(*ssa.Next); ok {
				return x.Index == 1 && !nx.IsString
			}
			return isDataKey(x.Tuple, depth+1)
		case *ssa.Call:
			if reflectValueMethod(x) == "Interface" {
				return isDataKey(x.Call.Args[0], depth+1)
			}
			if reflectValueMethod(x) == "Key" { // MapRange iterator
				return true
			}
		case *ssa.UnOp:
			if ia, ok := x.X.(*ssa.IndexAddr); ok {
				if mk, ok := ia.X.(*ssa.Call); ok && reflectValueMethod(mk) == "MapKeys" {
					return true
				}
			}
		}
		return false
	}
	paramIsKeyEverywhere := func(fn *ssa.Function, p *ssa.Parameter) bool {
		pi := -1
		for i, q := range fn.Params {
			if q == p {
				pi = i
			}
		}
		sites := 0
		for _, g := range c.M.Funcs {
			for _, b := range g.Blocks {
				for _, in := range b.Instrs {
					ci, ok := in.(ssa.CallInstruction)
					if !ok {
						continue
					}
					hit := false
					for _, callee := range c.M.Callees(ci.Common()) {
						if callee == fn {
							hit = true
						}
					}
					if !hit {
						continue
					}
					ai := pi
					if ci.Common().IsInvoke() {
						ai = pi - 1
					}
					if ai < 0 || ai >= len(ci.Common().Args) {
						return false
					}
					sites++
					if !isDataKey(ci.Common().Args[ai], 0) {
						return false
					}
				}
			}
		}
		return sites > 0
	}
	// clause (3) speaks of the operations the property names: Unserialize and Validate (the compatibility checks word
	// their refusals of a key differently, and carry no paths)
	unserOrValidate := c.reachableOutsideRecover(c.entryData("Unserialize", "Validate"))
	n := 0
	for _, fn := range c.M.SortedFuncs(c.scopeData()) {
		cnt := 0
		for _, b := range fn.Blocks {
			for _, in := range b.Instrs {
				al, ok := in.(*ssa.Alloc)
				if !ok || !isCE(al.Type()) {
					continue
				}
				var msg ssa.Value
				hasPath := false
				for _, r := range *al.Referrers() {
					fa, ok := r.(*ssa.FieldAddr)
					if !ok {
						continue
					}
					name := fieldName(fa.X.Type(), fa.Field)
					for _, r2 := range *fa.Referrers() {
						st, ok := r2.(*ssa.Store)
						if !ok || st.Addr != ssa.Value(fa) {
							continue
						}
						switch name {
						case "Message":
							msg = st.Val
						case "Path":
							if !core.IsNilConst(st.Val) {
								hasPath = true
							}
						}
					}
				}
				call, ok := msg.(*ssa.Call)
				if !ok || !strings.HasSuffix(core.StaticCalleeName(&call.Call), "fmt.Sprintf") || len(call.Call.Args) < 2 {
					continue
				}
				what := ""
				for _, a := range variadicElems(call.Call.Args[1]) {
					a = core.Unwrap(a)
					if mi, ok := a.(*ssa.MakeInterface); ok {
						a = mi.X
					}
					if discField(a) {
						what = "the discriminator field"
					}
					if p, ok := a.(*ssa.Parameter); ok && paramIsKeyEverywhere(fn, p) {
						what = "a key of the data (parameter " + p.Name() + ", a data key at every call site)"
					}
					if what == "" && unserOrValidate[fn] && isDataKey(a, 0) {
						what = "a key of the data (the key the enclosing loop is at)"
					}
				}
				if what == "" {
					continue
				}
				n++
				cnt++
				k := key(rule, c.M.Key(fn), sprintf("rejection #%d that names %s in its text names it in its path", cnt, what))
				if !hasPath && wrappedWithSegment(al) {
					c.R.Ok(rule, k, c.M.InstrPos(al), "error raised by a container about one of its elements", "the literal is handed to ConstraintErrorAddPathSegment where it is built")
				} else if hasPath {
					c.R.Ok(rule, k, c.M.InstrPos(al), "error raised by a container about one of its elements", "the literal stores a Path")
				} else {
					c.R.Bad(rule, k, c.M.InstrPos(al), "an error about "+what+" has no path segment for it",
						"the path of this rejection stops at the enclosing container (it is empty at the root): the element at fault is only named in the message text, unlike a missing or invalid property at the same place")
				}
			}
		}
	}
	if n < 6 {
		c.R.Unresolved(rule, sprintf("constraint errors that name a discriminator field or a data key in their text (%d found, at least 6 expected)", n))
	}
}

func fieldsOfType(t types.Type) *types.Struct {
	if p, ok := t.Underlying().(*types.Pointer); ok {
		t = p.Elem()
	}
	st, _ := t.Underlying().(*types.Struct)
	return st
}

// wrappedWithSegment: the error literal (a *ConstraintError alloc) is an argument of ConstraintErrorAddPathSegment or
// the receiver of AddPathSegment.
func wrappedWithSegment(al *ssa.Alloc) bool {
	seen := map[ssa.Value]bool{}
	var rec func(v ssa.Value, d int) bool
	rec = func(v ssa.Value, d int) bool {
		if d > 3 || seen[v] || v.Referrers() == nil {
			return false
		}
		seen[v] = true
		for _, r := range *v.Referrers() {
			switch x := r.(type) {
			case *ssa.MakeInterface:
				if rec(x, d+1) {
					return true
				}
			case *ssa.ChangeInterface:
				if rec(x, d+1) {
					return true
				}
			case *ssa.Call:
				n := core.StaticCalleeName(&x.Call)
				if strings.HasSuffix(n, "ConstraintErrorAddPathSegment") || strings.HasSuffix(n, ".AddPathSegment") {
					return true
				}
			}
		}
		return false
	}
	return rec(al, 0)
}
