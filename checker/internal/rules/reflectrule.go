package rules

import (
	"go/token"
	"go/types"
	"os"
	"strings"

	"golang.org/x/tools/go/ssa"

	"verifcheck/internal/core"
)

// R-REFLECT (the sub-classes decided exactly; DESIGN §3.1):
//  (a) a method invoked on reflect.TypeOf(x) panics with a nil dereference when x is the nil interface;
//  (b) the reflect.Value methods that panic on the zero Value (Type, CanConvert, Convert, Interface, Len, Index, MapKeys,
//      MapIndex, Elem of a non-pointer, Field*, Call, IsNil ...) applied to reflect.ValueOf(x) when x may be nil.
// Discharge: x is not of interface type; a dominating `x != nil`; the dynamic-type provenance of x excludes nil; for
// (b) a dominating fact on the same Value: IsValid(), CanConvert(...), or Kind() compared with a kind other than
// Invalid on the accepting side (including switch cases); or the call sits in a recover scope.
// Everything else about reflect (kind preconditions of Len/Index/..., assignability of Set, Call argument types) is
// listed in the evidence as not decided.

var zeroPanics = map[string]bool{
	"Type": true, "CanConvert": true, "Convert": true, "Interface": true, "Len": true, "Index": true, "MapKeys": true, "MapIndex": true,
	"Field": true, "FieldByName": true, "FieldByIndex": true, "NumField": true, "Call": true, "IsNil": true, "Int": true, "Float": true,
	"String_": false, "Bool": true, "Set": true, "SetMapIndex": true, "MethodByName": true, "NumMethod": true, "CanInt": false, "CanFloat": false,
	"Elem": true, "Slice": true, "Cap": true, "Pointer": true, "Uint": true,
}

func reflectValueMethod(call *ssa.Call) string {
	n := core.StaticCalleeName(&call.Call)
	if strings.HasPrefix(n, "(reflect.Value).") {
		return strings.TrimPrefix(n, "(reflect.Value).")
	}
	return ""
}

// valueOfArg: v is reflect.ValueOf(x) (directly, or through a local copy) -> x.
func valueOfArg(v ssa.Value) ssa.Value {
	if call, ok := v.(*ssa.Call); ok && core.StaticCalleeName(&call.Call) == "reflect.ValueOf" {
		return call.Call.Args[0]
	}
	return nil
}

func (c *Ctx) maybeNilIface(dt *core.DynTypes, x ssa.Value, at *ssa.BasicBlock) (bool, string) {
	if _, isIface := x.Type().Underlying().(*types.Interface); !isIface {
		return false, "the argument is not of interface type"
	}
	if tp, ok := x.Type().(*types.TypeParam); ok {
		_ = tp
	}
	if mi, ok := x.(*ssa.MakeInterface); ok {
		if _, isTP := mi.X.Type().(*types.TypeParam); isTP {
			// a type-parameter typed value boxed: nil only if the type argument is an interface type
			if coreNonInterface(mi.X.Type().(*types.TypeParam)) {
				return false, "boxed value of a type parameter whose constraint admits no interface type"
			}
			return true, ""
		}
		if _, isIface := mi.X.Type().Underlying().(*types.Interface); !isIface {
			return false, "boxed concrete value"
		}
	}
	path := c.M.ValPath(x)
	for _, cond := range core.CondsAt(at) {
		if y, neq, ok := core.NilCmp(cond.V); ok && neq == cond.True {
			if y == x || (c.M.ValPath(y) == path && !strings.HasPrefix(path, "%")) {
				return false, "dominated by a non-nil test of the argument"
			}
		}
	}
	ts := dt.Of(x, at)
	if !ts.MayNil && (!ts.Top || ts.TopNonNil) && (len(ts.Types) > 0 || ts.Top) {
		return false, "provenance of the argument excludes nil: " + ts.String()
	}
	return true, ""
}

func coreNonInterface(tp *types.TypeParam) bool {
	it, ok := tp.Constraint().Underlying().(*types.Interface)
	if !ok {
		return false
	}
	// constraint with a type set made of non-interface terms (e.g. ~int64 | ~string)
	hasTerms := false
	var walk func(t types.Type) bool
	walk = func(t types.Type) bool {
		switch u := t.(type) {
		case *types.Union:
			for i := 0; i < u.Len(); i++ {
				hasTerms = true
				if _, isIface := u.Term(i).Type().Underlying().(*types.Interface); isIface {
					return false
				}
			}
			return true
		case *types.Named:
			if ui, ok := u.Underlying().(*types.Interface); ok {
				for i := 0; i < ui.NumEmbeddeds(); i++ {
					if !walk(ui.EmbeddedType(i)) {
						return false
					}
				}
				return true
			}
			hasTerms = true
			return true
		case *types.Basic:
			hasTerms = true
			return true
		}
		return false
	}
	for i := 0; i < it.NumEmbeddeds(); i++ {
		if !walk(it.EmbeddedType(i)) {
			return false
		}
	}
	return hasTerms
}

// kindFact describes which facts about the Kind of a reflect.Value are looked for.
type kindFact struct {
	accept   func(k int64, eq bool) bool // Kind() ==/!= k (eq: the comparison holds as equality on this edge)
	validity bool                        // also accept IsValid()/CanConvert()/CanInt()/CanFloat() true and Kind facts on reflect.Indirect(v)
}

var factValid = kindFact{accept: func(k int64, eq bool) bool { return (eq && k != 0) || (!eq && k == 0) }, validity: true}

// validFact: on every path to b a branch condition establishes that the reflect.Value v is valid (non-zero).
func (c *Ctx) validFact(b *ssa.BasicBlock, v ssa.Value) string {
	path := c.reflPath(v, 0)
	if core.MustHold(b.Parent(), c.kindEst(path, factValid, 0))[b] {
		return "on every path: IsValid()/CanConvert() true, Kind() equal to a valid kind, or the nil-error outcome of a call that returns nil only under such a fact"
	}
	return ""
}

// kindEst: the edge-condition predicate for MustHold. A condition establishes the fact for the Value at path when it is
//   - Kind() ==/!= const accepted by the fact (on the Value itself; in validity mode on reflect.Indirect(Value) too:
//     Indirect of the zero Value is the zero Value);
//   - in validity mode IsValid()/CanConvert()/CanInt()/CanFloat() being true;
//   - `err == nil` for err = g(.., x, ..) with reflect.ValueOf(x) being the Value, where every callee g returns a
//     possibly-nil error only where the same fact holds for reflect.ValueOf(its parameter) on every path (the
//     `if err := s.Validate(data); err != nil { return }` idiom of the Serialize methods). Depth-bounded.
func (c *Ctx) kindEst(path string, f kindFact, depth int) func(core.Cond) bool {
	return func(cond core.Cond) bool {
		switch x := cond.V.(type) {
		case *ssa.Call:
			if !f.validity {
				return false
			}
			m := reflectValueMethod(x)
			return (m == "IsValid" || m == "CanConvert" || m == "CanInt" || m == "CanFloat") && cond.True && c.reflPath(x.Call.Args[0], 0) == path
		case *ssa.BinOp:
			if x.Op != token.EQL && x.Op != token.NEQ {
				return false
			}
			for _, side := range []ssa.Value{x.X, x.Y} {
				kc, ok := side.(*ssa.Call)
				if !ok || reflectValueMethod(kc) != "Kind" {
					continue
				}
				if kp := c.reflPath(kc.Call.Args[0], 0); kp != path && !(f.validity && kp == "reflect.Indirect("+path+")") {
					continue
				}
				other := x.Y
				if side == x.Y {
					other = x.X
				}
				if k, isConst := core.ConstInt(other); isConst && f.accept(k, (x.Op == token.EQL) == cond.True) {
					return true
				}
			}
			// err == nil on this edge
			y, neq, ok := core.NilCmp(x)
			if !ok || neq == cond.True || depth >= 2 {
				return false
			}
			call, isCall := core.Unwrap(y).(*ssa.Call)
			if !isCall || !core.IsErrorType(call.Type()) {
				return false
			}
			for ai, a := range call.Call.Args {
				if "reflect.ValueOf("+c.reflPath(a, 0)+")" != path {
					continue
				}
				callees := c.M.Callees(&call.Call)
				if len(callees) == 0 {
					return false
				}
				pi := ai
				if call.Call.IsInvoke() {
					pi = ai + 1 // Params carry the receiver first; invoke-mode Args do not
				}
				for _, g := range callees {
					if !c.ensuresOnNil(g, pi, f, depth+1) {
						return false
					}
				}
				return true
			}
		}
		return false
	}
}

// ensuresOnNil: every return of g whose error result may be nil sits where the fact holds for
// reflect.ValueOf(parameter #pi) on every path.
func (c *Ctx) ensuresOnNil(g *ssa.Function, pi int, f kindFact, depth int) bool {
	if len(g.Blocks) == 0 || pi >= len(g.Params) {
		return false
	}
	ei := core.ErrorResultIndex(g.Signature)
	if ei < 0 {
		return false
	}
	hold := core.MustHold(g, c.kindEst("reflect.ValueOf("+c.M.ValPath(g.Params[pi])+")", f, depth))
	n := 0
	for _, ret := range core.ReturnsOf(g) {
		if c.M.RetNonNil(ret, ei) {
			continue
		}
		n++
		if !hold[ret.Key()] {
			return false
		}
	}
	return n > 0
}

// reflPath: access path that treats the pure reflect constructors as path steps (they are recomputed, not reused, in the source).
func (c *Ctx) reflPath(v ssa.Value, depth int) string {
	if depth > 6 {
		return c.M.ValPath(v)
	}
	if call, ok := v.(*ssa.Call); ok {
		switch n := core.StaticCalleeName(&call.Call); n {
		case "reflect.ValueOf", "reflect.Indirect", "reflect.TypeOf":
			return n + "(" + c.reflPath(call.Call.Args[0], depth+1) + ")"
		case "(reflect.Value).Elem":
			return "Elem(" + c.reflPath(call.Call.Args[0], depth+1) + ")"
		}
	}
	if mi, ok := v.(*ssa.MakeInterface); ok {
		return c.reflPath(mi.X, depth+1)
	}
	return c.M.ValPath(v)
}

func (c *Ctx) ruleReflect(rule string, fns map[*ssa.Function]bool) {
	dt := core.NewDynTypes(c.M)
	listed := 0
	for _, fn := range c.M.SortedFuncs(fns) {
		cnt := map[string]int{}
		for _, b := range fn.Blocks {
			for _, in := range b.Instrs {
				call, ok := in.(*ssa.Call)
				if !ok {
					continue
				}
				// (a) method on reflect.TypeOf(x)
				if call.Call.IsInvoke() && strings.HasSuffix(typeStr(call.Call.Value.Type()), "reflect.Type") {
					tc, isCall := call.Call.Value.(*ssa.Call)
					if !isCall || core.StaticCalleeName(&tc.Call) != "reflect.TypeOf" {
						continue
					}
					x := tc.Call.Args[0]
					cnt["type"]++
					k := key(rule, c.M.Key(fn), sprintf("reflect.TypeOf(%s).%s #%d", c.stable(fn, c.reflPath(x, 0)), call.Call.Method.Name(), cnt["type"]))
					may, why := c.maybeNilIface(dt, x, b)
					if !may {
						c.R.Ok(rule, k, c.M.InstrPos(call), "method call on reflect.TypeOf(...)", why)
						continue
					}
					if why2, ok := c.reflectException(fn, x); ok {
						c.R.Except(rule, k, c.M.InstrPos(call), "method call on reflect.TypeOf(...)", why2)
						continue
					}
					c.R.Bad(rule, k, c.M.InstrPos(call), "method called on reflect.TypeOf(x) although x may be the nil interface",
						"reflect.TypeOf(nil) is a nil reflect.Type; calling "+call.Call.Method.Name()+" on it is a nil-pointer dereference (outside any recover scope): a nil / null value panics instead of being rejected")
					continue
				}
				// (b) zero-Value-panicking method on reflect.ValueOf(x)
				m := reflectValueMethod(call)
				if m == "" {
					continue
				}
				if (m == "Set" || m == "SetMapIndex") && len(call.Call.Args) >= 2 {
					c.reflectSetArgs(rule, dt, fn, b, call, m, cnt)
					c.reflectSetAssignable(rule, fn, b, call, m, cnt)
				}
				if m == "Set" && len(call.Call.Args) == 2 && isStructFieldValue(call.Call.Args[0], map[ssa.Value]bool{}) {
					// (h) Set on a struct field obtained by reflection panics for an unexported field ("using value
					// obtained using unexported field"): properties are matched to fields by name, exported or not
					cnt["setfield"]++
					k := key(rule, c.M.Key(fn), sprintf("reflect.Value.Set #%d on a struct field is possible (CanSet) or recovered", cnt["setfield"]))
					path := c.reflPath(call.Call.Args[0], 0)
					canSet := func(cond core.Cond) bool {
						cc, ok := cond.V.(*ssa.Call)
						return ok && cond.True && reflectValueMethod(cc) == "CanSet" && c.reflPath(cc.Call.Args[0], 0) == path
					}
					switch {
					case isRecoverScope(fn):
						c.R.Ok(rule, k, c.M.InstrPos(call), "assignment to a struct field through reflection", "the function recovers: the panic becomes the recovered error")
					case core.MustHold(fn, canSet)[b]:
						c.R.Ok(rule, k, c.M.InstrPos(call), "assignment to a struct field through reflection", "on every path CanSet() of the same Value was found true")
					default:
						c.R.Bad(rule, k, c.M.InstrPos(call), "reflect.Value.Set on a struct field that may be unexported, outside any recover scope",
							"a property mapped to an unexported struct field (fields are looked up by name or json tag, exported or not): Unserialize of an input that supplies the property panics ('reflect.Value.Set using value obtained using unexported field') instead of returning an error")
					}
				}
				if m == "MapIndex" && len(call.Call.Args) == 2 {
					cnt["mapindex"]++
					c.reflectMapIndex(rule, fn, call, cnt["mapindex"])
				}
				if m == "Convert" && len(call.Call.Args) == 2 && core.ReflectTypeOfStatic(call.Call.Args[1]) == nil {
					// (f) the target type is only known at run time (another value's Type(), a schema's ReflectedType()):
					// Convert panics when the value cannot be converted to it
					cnt["dynconvert"]++
					k := key(rule, c.M.Key(fn), sprintf("reflect.Value.Convert #%d to a type known only at run time", cnt["dynconvert"]))
					path := c.reflPath(call.Call.Args[0], 0)
					est := func(cond core.Cond) bool {
						cc, ok := cond.V.(*ssa.Call)
						if !ok || !cond.True || reflectValueMethod(cc) != "CanConvert" || len(cc.Call.Args) != 2 {
							return false
						}
						return c.reflPath(cc.Call.Args[0], 0) == path && (cc.Call.Args[1] == call.Call.Args[1] || c.M.ValPath(cc.Call.Args[1]) == c.M.ValPath(call.Call.Args[1]))
					}
					switch {
					case isRecoverScope(fn):
						c.R.Ok(rule, k, c.M.InstrPos(call), "conversion to a run-time type", "the function recovers: the panic becomes the recovered error")
					case core.MustHold(fn, est)[b]:
						c.R.Ok(rule, k, c.M.InstrPos(call), "conversion to a run-time type", "on every path CanConvert() to the same type was found true")
					default:
						c.R.Bad(rule, k, c.M.InstrPos(call), "reflect.Value.Convert to a type known only at run time, without CanConvert",
							"an `any` or one-of typed property reflects as interface{}; converting its zero value to the concrete type of the struct field it is mapped to panics ('value of type interface {} cannot be converted to type string') in Validate and Serialize")
					}
				}
				if (m == "FieldByIndex" || m == "FieldByName") && len(call.Call.Args) == 2 && fromStructField(call.Call.Args[1]) {
					// (e) struct-mapped objects: the field is named by a reflect.StructField descriptor (the field cache).
					// Field access along an index path panics ("indirection through nil pointer to embedded struct") when a
					// struct pointer embedded on the way is nil - a property of the VALUE (Validate / Serialize) or of the
					// freshly allocated struct (Unserialize), not of the schema. FieldByIndexErr reports it instead.
					cnt["fieldpath"]++
					k := key(rule, c.M.Key(fn), sprintf("reflect.Value.%s #%d does not walk through a nil embedded pointer", m, cnt["fieldpath"]))
					switch {
					case isRecoverScope(fn):
						c.R.Ok(rule, k, c.M.InstrPos(call), "field access along an index path", "the function recovers: the panic becomes the recovered error")
					case noEmbeddedPointer(call.Call.Args[0]):
						c.R.Ok(rule, k, c.M.InstrPos(call), "field access along an index path", "the struct type is statically known and embeds no pointer to a struct")
					default:
						c.R.Bad(rule, k, c.M.InstrPos(call), "reflect.Value."+m+" panics when a struct pointer embedded on the way to the field is nil",
							"a struct-mapped object whose Go type embeds a *struct: Unserialize (fresh value) and Validate / Serialize (nil embedded pointer in the data) panic with 'indirection through nil pointer to embedded struct' instead of returning an error; FieldByIndexErr is the non-panicking form")
					}
				}
				if m == "Elem" && len(call.Call.Args) == 1 {
					// (g) Elem() of a nil pointer (or nil interface) Value does not panic: it returns the zero Value, on
					// which nearly every method does. The receiver must be known not to be a nil pointer.
					cnt["elem"]++
					k := key(rule, c.M.Key(fn), sprintf("reflect.Value.Elem #%d is not applied to a nil pointer", cnt["elem"]))
					if why := c.elemNonNil(fn, call, 0); why != "" {
						c.R.Ok(rule, k, c.M.InstrPos(call), "Elem() of a reflect.Value", why)
					} else {
						c.R.Bad(rule, k, c.M.InstrPos(call), "reflect.Value.Elem() of a pointer that may be nil",
							"Elem() of a nil pointer is the zero Value; the field access, Interface() or Kind-dependent call that follows panics ('call of reflect.Value.… on zero Value') for a typed nil pointer in the data instead of rejecting it")
					}
				}
				if !zeroPanics[m] {
					continue
				}
				recv := call.Call.Args[0]
				x := valueOfArg(recv)
				if x == nil {
					listed++
					continue
				}
				cnt[m]++
				k := key(rule, c.M.Key(fn), sprintf("reflect.ValueOf(%s).%s #%d", c.stable(fn, c.reflPath(x, 0)), m, cnt[m]))
				if may, why := c.maybeNilIface(dt, x, b); !may {
					c.R.Ok(rule, k, c.M.InstrPos(call), "reflect.Value method that panics on the zero Value", why)
					continue
				}
				if f := c.validFact(b, recv); f != "" {
					c.R.Ok(rule, k, c.M.InstrPos(call), "reflect.Value method that panics on the zero Value", "dominated by a validity fact on the same Value: "+f)
					continue
				}
				if isRecoverScope(fn) {
					c.R.Ok(rule, k, c.M.InstrPos(call), "reflect.Value method that panics on the zero Value", "the function recovers: the panic becomes the recovered error")
					continue
				}
				if why2, ok := c.reflectException(fn, x); ok {
					c.R.Except(rule, k, c.M.InstrPos(call), "reflect.Value method that panics on the zero Value", why2)
					continue
				}
				c.R.Bad(rule, k, c.M.InstrPos(call), "reflect.Value."+m+" on reflect.ValueOf(x) although x may be nil",
					"reflect.ValueOf(nil) is the zero Value and "+m+" panics on it ('call of reflect.Value."+m+" on zero Value'): a nil value panics instead of being rejected")
			}
		}
	}
	c.R.Note("%s: %d reflect.Value method calls on values not produced by reflect.ValueOf in the same function are listed as not decided (kind / assignability preconditions)", rule, listed)
}

// elemNonNil: why the receiver of this Elem() call is not a nil pointer; "" if that is not established.
//   - it was made by reflect.New (or is the address of something: Addr());
//   - on every path IsNil() of the same Value was found false;
//   - the function recovers;
//   - the result is only asked IsValid() / Kind();
//   - the receiver is a parameter, and at every call site the argument is known not to be a nil pointer: IsNil() false on
//     every path - or, when this Elem() is only executed under Kind() == Pointer of the receiver, "not a pointer at all"
//     counts too (the caller's `if v.Kind() == Pointer && v.IsNil() { return err }` guard establishes one or the other).
func (c *Ctx) elemNonNil(fn *ssa.Function, call *ssa.Call, depth int) string {
	recv := call.Call.Args[0]
	if madeByNew(recv, map[ssa.Value]bool{}) {
		return "the receiver was made by reflect.New / Addr (on every incoming edge): never a nil pointer"
	}
	if isRecoverScope(fn) {
		return "the function recovers: a panic on the zero Value becomes the recovered error"
	}
	onlyAsked := true
	if refs := call.Referrers(); refs != nil {
		for _, r := range *refs {
			rc, ok := r.(*ssa.Call)
			if !ok || (reflectValueMethod(rc) != "IsValid" && reflectValueMethod(rc) != "Kind") {
				onlyAsked = false
			}
		}
		if len(*refs) > 0 && onlyAsked {
			return "the result is only asked IsValid() / Kind()"
		}
	}
	path := c.reflPath(recv, 0)
	notNil := func(p string, alsoNotPointer bool) func(core.Cond) bool {
		return func(cond core.Cond) bool {
			switch x := cond.V.(type) {
			case *ssa.Call:
				return reflectValueMethod(x) == "IsNil" && !cond.True && c.reflPath(x.Call.Args[0], 0) == p
			case *ssa.BinOp:
				if !alsoNotPointer || (x.Op != token.EQL && x.Op != token.NEQ) {
					return false
				}
				for _, side := range []ssa.Value{x.X, x.Y} {
					kc, ok := side.(*ssa.Call)
					if !ok || reflectValueMethod(kc) != "Kind" || c.reflPath(kc.Call.Args[0], 0) != p {
						continue
					}
					other := x.Y
					if side == x.Y {
						other = x.X
					}
					// reflect.Pointer == 22
					if k, isConst := core.ConstInt(other); isConst && k == 22 && (x.Op == token.EQL) != cond.True {
						return true
					}
				}
			}
			return false
		}
	}
	if core.MustHold(fn, notNil(path, false))[call.Block()] {
		return "on every path IsNil() of the same Value was found false"
	}
	underPointer := false
	for _, cond := range core.CondsAt(call.Block()) {
		if bin, ok := cond.V.(*ssa.BinOp); ok && (bin.Op == token.EQL || bin.Op == token.NEQ) {
			for _, side := range []ssa.Value{bin.X, bin.Y} {
				kc, ok := side.(*ssa.Call)
				if !ok || reflectValueMethod(kc) != "Kind" || c.reflPath(kc.Call.Args[0], 0) != path {
					continue
				}
				other := bin.Y
				if side == bin.Y {
					other = bin.X
				}
				if k, isConst := core.ConstInt(other); isConst && k == 22 && (bin.Op == token.EQL) == cond.True {
					underPointer = true
				}
			}
		}
	}
	// `if v.Kind() == Pointer && v.IsNil() { return }` ... `if v.Kind() == Pointer { v.Elem() }`: on every path the Value
	// was found not to be nil or not to be a pointer, and this Elem() runs only where it is a pointer
	if underPointer && core.MustHold(fn, notNil(path, true))[call.Block()] {
		return "this Elem() runs only under Kind() == Pointer of the Value, and on every path the Value was found not to be a pointer or IsNil() of it false"
	}
	// a parameter: look at the callers
	var param *ssa.Parameter
	pi := -1
	for i, p := range fn.Params {
		if ssa.Value(p) == recv {
			param, pi = p, i
		}
	}
	if param == nil || depth >= 3 {
		return ""
	}
	sites := 0
	for _, g := range c.M.Funcs {
		for _, b := range g.Blocks {
			for _, in := range b.Instrs {
				ci, ok := in.(ssa.CallInstruction)
				if !ok {
					continue
				}
				hit := false
				for _, callee := range c.M.Callees(ci.Common()) {
					if callee == fn {
						hit = true
					}
				}
				if !hit {
					continue
				}
				ai := pi
				if ci.Common().IsInvoke() {
					ai = pi - 1
				}
				if ai < 0 || ai >= len(ci.Common().Args) {
					return ""
				}
				sites++
				arg := ci.Common().Args[ai]
				if madeByNew(arg, map[ssa.Value]bool{}) {
					continue
				}
				if core.MustHold(g, notNil(c.reflPath(arg, 0), underPointer))[b] {
					continue
				}
				// the caller passes its own parameter on
				passedOn := false
				for _, gp := range g.Params {
					if ssa.Value(gp) == arg {
						passedOn = c.paramNeverNilPointer(g, gp, underPointer, depth+1)
					}
				}
				if !passedOn {
					return ""
				}
			}
		}
	}
	if sites == 0 {
		return ""
	}
	return sprintf("the receiver is parameter %s; at each of the %d call sites the argument is known not to be a nil pointer (IsNil() false%s on every path, through at most %d callers)", param.Name(), sites, map[bool]string{true: " or Kind() != Pointer", false: ""}[underPointer], 3)
}

// isStructFieldValue: v is the result of Field / FieldByName / FieldByIndex / FieldByIndexErr (possibly through a phi, a
// local copy, or the free variable of a closure bound to such a value).
func isStructFieldValue(v ssa.Value, seen map[ssa.Value]bool) bool {
	if seen[v] {
		return false
	}
	seen[v] = true
	switch x := v.(type) {
	case *ssa.Call:
		switch reflectValueMethod(x) {
		case "Field", "FieldByName", "FieldByIndex", "FieldByIndexErr", "FieldByNameFunc":
			return true
		}
		// a helper of the module that hands a field back (a field walk that allocates embedded pointers, say)
		if helper := core.StaticBody(&x.Call); helper != nil && helper.Signature.Results().Len() >= 1 &&
			typeStr(helper.Signature.Results().At(0).Type()) == "reflect.Value" {
			for _, r := range core.ReturnsOf(helper) {
				if isStructFieldValue(core.RetVal(r, 0), seen) {
					return true
				}
			}
		}
	case *ssa.Extract:
		return isStructFieldValue(x.Tuple, seen)
	case *ssa.Phi:
		for _, e := range x.Edges {
			if isStructFieldValue(e, seen) {
				return true
			}
		}
	case *ssa.UnOp:
		// load of a local / captured variable: look at what is stored into it
		if al, ok := x.X.(*ssa.Alloc); ok {
			for _, r := range *al.Referrers() {
				if st, ok := r.(*ssa.Store); ok && st.Addr == ssa.Value(al) && isStructFieldValue(st.Val, seen) {
					return true
				}
			}
		}
		if fv, ok := x.X.(*ssa.FreeVar); ok {
			fn := fv.Parent()
			idx := -1
			for i, f := range fn.FreeVars {
				if f == fv {
					idx = i
				}
			}
			if parent := fn.Parent(); parent != nil && idx >= 0 {
				for _, b := range parent.Blocks {
					for _, in := range b.Instrs {
						if mc, ok := in.(*ssa.MakeClosure); ok && mc.Fn == ssa.Value(fn) && idx < len(mc.Bindings) {
							if al, ok := mc.Bindings[idx].(*ssa.Alloc); ok {
								for _, r := range *al.Referrers() {
									if st, ok := r.(*ssa.Store); ok && st.Addr == ssa.Value(al) && isStructFieldValue(st.Val, seen) {
										return true
									}
								}
							}
						}
					}
				}
			}
		}
	}
	return false
}

// madeByNew: v is the result of reflect.New / Value.Addr, or a phi of such.
func madeByNew(v ssa.Value, seen map[ssa.Value]bool) bool {
	if seen[v] {
		return true
	}
	seen[v] = true
	switch x := v.(type) {
	case *ssa.Call:
		n := core.StaticCalleeName(&x.Call)
		return n == "reflect.New" || n == "(reflect.Value).Addr"
	case *ssa.Phi:
		for _, e := range x.Edges {
			if !madeByNew(e, seen) {
				return false
			}
		}
		return len(x.Edges) > 0
	}
	return false
}

// paramNeverNilPointer: at every call site of g the argument for parameter p is known not to be a nil pointer.
func (c *Ctx) paramNeverNilPointer(g *ssa.Function, p *ssa.Parameter, alsoNotPointer bool, depth int) bool {
	if depth >= 3 {
		return false
	}
	pi := -1
	for i, q := range g.Params {
		if q == p {
			pi = i
		}
	}
	est := func(path string) func(core.Cond) bool {
		return func(cond core.Cond) bool {
			switch x := cond.V.(type) {
			case *ssa.Call:
				return reflectValueMethod(x) == "IsNil" && !cond.True && c.reflPath(x.Call.Args[0], 0) == path
			case *ssa.BinOp:
				if !alsoNotPointer || (x.Op != token.EQL && x.Op != token.NEQ) {
					return false
				}
				for _, side := range []ssa.Value{x.X, x.Y} {
					kc, ok := side.(*ssa.Call)
					if !ok || reflectValueMethod(kc) != "Kind" || c.reflPath(kc.Call.Args[0], 0) != path {
						continue
					}
					other := x.Y
					if side == x.Y {
						other = x.X
					}
					if k, isConst := core.ConstInt(other); isConst && k == 22 && (x.Op == token.EQL) != cond.True {
						return true
					}
				}
			}
			return false
		}
	}
	sites := 0
	for _, h := range c.M.Funcs {
		for _, b := range h.Blocks {
			for _, in := range b.Instrs {
				ci, ok := in.(ssa.CallInstruction)
				if !ok {
					continue
				}
				hit := false
				for _, callee := range c.M.Callees(ci.Common()) {
					if callee == g {
						hit = true
					}
				}
				if !hit {
					continue
				}
				ai := pi
				if ci.Common().IsInvoke() {
					ai = pi - 1
				}
				if ai < 0 || ai >= len(ci.Common().Args) {
					return false
				}
				sites++
				arg := ci.Common().Args[ai]
				if madeByNew(arg, map[ssa.Value]bool{}) {
					continue
				}
				if core.MustHold(h, est(c.reflPath(arg, 0)))[b] {
					continue
				}
				ok2 := false
				for _, hp := range h.Params {
					if ssa.Value(hp) == arg {
						ok2 = c.paramNeverNilPointer(h, hp, alsoNotPointer, depth+1)
					}
				}
				if !ok2 {
					return false
				}
			}
		}
	}
	return sites > 0
}

// fromStructField: v is the Name or Index of a reflect.StructField value.
func fromStructField(v ssa.Value) bool {
	isSF := func(t types.Type) bool {
		if p, ok := t.Underlying().(*types.Pointer); ok {
			t = p.Elem()
		}
		n, ok := t.(*types.Named)
		return ok && n.Obj().Pkg() != nil && n.Obj().Pkg().Path() == "reflect" && n.Obj().Name() == "StructField"
	}
	switch x := v.(type) {
	case *ssa.Field:
		return isSF(x.X.Type())
	case *ssa.UnOp:
		if fa, ok := x.X.(*ssa.FieldAddr); ok {
			return isSF(fa.X.Type())
		}
	}
	return false
}

// noEmbeddedPointer: v is reflect.ValueOf(x) for an x whose static type is a struct (or pointer to one) without an
// embedded pointer field, transitively.
func noEmbeddedPointer(v ssa.Value) bool {
	x := valueOfArg(v)
	if x == nil {
		return false
	}
	if mi, ok := x.(*ssa.MakeInterface); ok {
		x = mi.X
	}
	t := x.Type()
	if p, ok := t.Underlying().(*types.Pointer); ok {
		t = p.Elem()
	}
	var ok func(t types.Type, depth int) bool
	ok = func(t types.Type, depth int) bool {
		st, isStruct := t.Underlying().(*types.Struct)
		if !isStruct || depth > 6 {
			return false
		}
		for i := 0; i < st.NumFields(); i++ {
			f := st.Field(i)
			if !f.Embedded() {
				continue
			}
			if _, isPtr := f.Type().Underlying().(*types.Pointer); isPtr {
				return false
			}
			if !ok(f.Type(), depth+1) {
				return false
			}
		}
		return true
	}
	return ok(t, 0)
}

// reflectException: E-STRUCTMAPPED - reflection on the zero value / field cache of a struct-mapped object inside
// ObjectSchema methods that are only reached when fieldCache != nil; the constructor derives both from one type
// argument and panics otherwise.
func (c *Ctx) reflectException(fn *ssa.Function, x ssa.Value) (string, bool) {
	if !strings.HasPrefix(c.M.Key(fn), "schema.ObjectSchema.") {
		return "", false
	}
	p := c.M.ValPath(x)
	if mi, ok := x.(*ssa.MakeInterface); ok {
		p = c.M.ValPath(mi.X)
	}
	if strings.HasSuffix(p, ".defaultValue") {
		return "E-STRUCTMAPPED: the zero value of a struct-mapped object, set by NewStructMappedObjectSchema from its type argument (a struct or pointer to struct, checked by validateObjectIsStruct); the method is only reached when fieldCache != nil", true
	}
	return "", false
}

// ---- (c) reflect.Value.MapIndex -------------------------------------------------------------------------------------
//
// (c1) MapIndex returns the zero Value when the key is absent - and a NaN key is never found, even when it was just
//      obtained from MapKeys of the same map - so every zero-Value-panicking method on the result needs, on every
//      path, IsValid() of that result, or the fact that the key's Interface() was successfully asserted to a
//      non-floating type (then it is not NaN, and being a MapKeys element it is present).
// (c2) MapIndex panics when the key is not assignable to the map's key type: the key must be an element of
//      MapKeys() of the same map, a MapIter key, or X.Convert(M.Type().Key()) dominated by X.CanConvert of that type.

func (c *Ctx) isMapKeysElem(k ssa.Value, mapPath string) bool {
	if u, ok := k.(*ssa.UnOp); ok && u.Op == token.MUL {
		if ia, ok := u.X.(*ssa.IndexAddr); ok {
			if src, ok := ia.X.(*ssa.Call); ok && core.StaticCalleeName(&src.Call) == "(reflect.Value).MapKeys" {
				return c.reflPath(src.Call.Args[0], 0) == mapPath
			}
		}
	}
	if kc, ok := k.(*ssa.Call); ok && core.StaticCalleeName(&kc.Call) == "(*reflect.MapIter).Key" {
		return true
	}
	return false
}

func (c *Ctx) reflectMapIndex(rule string, fn *ssa.Function, call *ssa.Call, n int) {
	m, k := call.Call.Args[0], call.Call.Args[1]
	mapPath := c.reflPath(m, 0)
	pos := c.M.InstrPos(call)
	// (c2)
	k2 := key(rule, c.M.Key(fn), sprintf("MapIndex #%d on %s: key assignable to the map's key type", n, c.stable(fn, mapPath)))
	switch {
	case c.isMapKeysElem(k, mapPath):
		c.R.Ok(rule, k2, pos, "reflect.Value.MapIndex key", "the key is an element of MapKeys() of the same map (or a MapIter key)")
	default:
		okConv := false
		if conv, ok := k.(*ssa.Call); ok && core.StaticCalleeName(&conv.Call) == "(reflect.Value).Convert" && len(conv.Call.Args) == 2 {
			// the target type is M.Type().Key()
			if kt, ok := conv.Call.Args[1].(*ssa.Call); ok && kt.Call.IsInvoke() && kt.Call.Method.Name() == "Key" {
				if tc, ok := kt.Call.Value.(*ssa.Call); ok && core.StaticCalleeName(&tc.Call) == "(reflect.Value).Type" && c.reflPath(tc.Call.Args[0], 0) == mapPath {
					x := conv.Call.Args[0]
					hold := core.MustHold(fn, func(cond core.Cond) bool {
						cc, ok := cond.V.(*ssa.Call)
						return ok && cond.True && core.StaticCalleeName(&cc.Call) == "(reflect.Value).CanConvert" && len(cc.Call.Args) == 2 &&
							c.reflPath(cc.Call.Args[0], 0) == c.reflPath(x, 0) && cc.Call.Args[1] == conv.Call.Args[1]
					})
					okConv = hold[conv.Block()]
				}
			}
		}
		if okConv {
			c.R.Ok(rule, k2, pos, "reflect.Value.MapIndex key", "the key is converted to the map's own key type under a CanConvert fact")
		} else if c.ownReflectedMap(m) && c.isChildUnserializeResult(k) {
			c.R.Except(rule, k2, pos, "reflect.Value.MapIndex key", "E-REFLECTEDTYPE: the map was made from the schema's own ReflectedType() and the key is what the key schema's Unserialize returned; that such results have the reflected type is the typed-API contract decided under C01 (R-DYNTYPE)")
		} else {
			c.R.Bad(rule, k2, pos, "reflect.Value.MapIndex with a key that may not be assignable to the map's key type",
				"the key is neither a key of this map nor converted to M.Type().Key() under CanConvert; for a typed map with another key type (e.g. map[int]any) MapIndex panics instead of the value being rejected")
		}
	}
	// (c1)
	est := func(cond core.Cond) bool {
		switch x := cond.V.(type) {
		case *ssa.Call:
			return cond.True && reflectValueMethod(x) == "IsValid" && x.Call.Args[0] == ssa.Value(call)
		case *ssa.Extract:
			ta, ok := x.Tuple.(*ssa.TypeAssert)
			if !ok || x.Index != 1 || !cond.True || !c.isMapKeysElem(k, mapPath) {
				return false
			}
			ic, ok := ta.X.(*ssa.Call)
			if !ok || core.StaticCalleeName(&ic.Call) != "(reflect.Value).Interface" || ic.Call.Args[0] != k {
				return false
			}
			if b, ok := ta.AssertedType.Underlying().(*types.Basic); ok && b.Info()&(types.IsFloat|types.IsComplex) == 0 {
				return true
			}
		}
		return false
	}
	hold := core.MustHold(fn, est)
	uses := 0
	for _, r := range *call.Referrers() {
		uc, ok := r.(*ssa.Call)
		if !ok {
			continue
		}
		um := reflectValueMethod(uc)
		if um == "" || !zeroPanics[um] || uc.Call.Args[0] != ssa.Value(call) {
			continue
		}
		uses++
		k1 := key(rule, c.M.Key(fn), sprintf("MapIndex #%d on %s: result valid before .%s #%d", n, c.stable(fn, mapPath), um, uses))
		if hold[uc.Block()] {
			c.R.Ok(rule, k1, c.M.InstrPos(uc), "use of a reflect.Value.MapIndex result", "on every path IsValid() of the result holds, or the key was asserted to a non-floating type (not NaN) and is a key of this map")
		} else if isRecoverScope(fn) {
			c.R.Ok(rule, k1, c.M.InstrPos(uc), "use of a reflect.Value.MapIndex result", "the function recovers")
		} else {
			c.R.Bad(rule, k1, c.M.InstrPos(uc), "reflect.Value."+um+" on a MapIndex result that may be the zero Value",
				"MapIndex returns the zero Value for an absent key, and a NaN key obtained from MapKeys is never found again; "+um+" then panics ('call of reflect.Value."+um+" on zero Value') instead of the value being rejected")
		}
	}
	// results stored and used through locals are not followed
	if uses == 0 {
		c.R.Info(rule, key(rule, c.M.Key(fn), sprintf("MapIndex #%d on %s: uses", n, c.stable(fn, mapPath))), pos, "MapIndex result not used directly by a reflect method", "not decided")
	}
}

// ---- (d) reflect.Value.Set / SetMapIndex with a zero Value argument ---------------------------------------------------
//
// dst.Set(reflect.ValueOf(x)) panics ("call of reflect.Value.Set on zero Value") when x is the nil interface, and
// m.SetMapIndex(reflect.ValueOf(k), v) panics for a nil k. Every argument of the form reflect.ValueOf(x) is an
// obligation: x must not be nil there (not of interface type, a dominating non-nil test, provenance excluding nil -
// e.g. the result of an Unserialize none of whose implementers returns (nil, nil) - or a recover scope).
func (c *Ctx) reflectSetArgs(rule string, dt *core.DynTypes, fn *ssa.Function, b *ssa.BasicBlock, call *ssa.Call, m string, cnt map[string]int) {
	if os.Getenv("VERIF_DBG") == "setargs" {
		for _, n := range c.serializableTypes() {
			if f := c.methodFn(n, "Unserialize"); f != nil && len(f.Blocks) > 0 {
				println("UNSER", c.M.Key(f), dt.ResultOf(f, 0, true).String())
			}
		}
	}
	last := len(call.Call.Args)
	if m == "SetMapIndex" {
		last = 2 // a zero Value as the element deletes the key; only the key must be valid
	}
	for i := 1; i < last; i++ {
		x := valueOfArg(call.Call.Args[i])
		if x == nil {
			continue
		}
		cnt["set"]++
		k := key(rule, c.M.Key(fn), sprintf("%s(reflect.ValueOf(%s)) #%d", m, c.stable(fn, c.reflPath(x, 0)), cnt["set"]))
		what := "reflect.Value." + m + " with reflect.ValueOf(x) as argument"
		if may, why := c.maybeNilIface(dt, x, b); !may {
			c.R.Ok(rule, k, c.M.InstrPos(call), what, why)
			continue
		}
		if isRecoverScope(fn) {
			c.R.Ok(rule, k, c.M.InstrPos(call), what, "the function recovers: the panic becomes the recovered error")
			continue
		}
		c.R.Bad(rule, k, c.M.InstrPos(call), "reflect.Value."+m+" may receive the zero Value: x in reflect.ValueOf(x) may be nil",
			"reflect.ValueOf(nil) is the zero Value; "+m+" panics on it instead of the nil being rejected (or stored); provenance of x: "+dt.Of(x, b).String())
	}
}

// ---- (e) reflect.Value.String -----------------------------------------------------------------------------------------
//
// R-VALSTRING (C17): reflect.Value.String() does not panic for a non-string Value - it returns a placeholder such as
// "<int64 Value>". Used to build an error path segment or message from a map key or item it silently replaces the
// element's identity. Every call needs, on every path, the fact Kind() == reflect.String on the same Value.
var factKindString = kindFact{accept: func(k int64, eq bool) bool { return eq && k == 24 }}

func (c *Ctx) ruleValueString(rule string, fns map[*ssa.Function]bool) {
	n := 0
	for _, fn := range c.M.SortedFuncs(fns) {
		cnt := 0
		for _, b := range fn.Blocks {
			for _, in := range b.Instrs {
				call, ok := in.(*ssa.Call)
				if !ok || reflectValueMethod(call) != "String" {
					continue
				}
				n++
				cnt++
				path := c.reflPath(call.Call.Args[0], 0)
				k := key(rule, c.M.Key(fn), sprintf("(reflect.Value).String on %s #%d", c.stable(fn, path), cnt))
				if conv, ok := call.Call.Args[0].(*ssa.Call); ok && reflectValueMethod(conv) == "Convert" && len(conv.Call.Args) == 2 {
					if t := core.ReflectTypeOfStatic(conv.Call.Args[1]); t != nil {
						if bt, ok := t.Underlying().(*types.Basic); ok && bt.Info()&types.IsString != 0 {
							c.R.Ok(rule, k, c.M.InstrPos(call), "reflect.Value.String()", "the Value is the result of Convert to a string type")
							continue
						}
					}
				}
				if core.MustHold(fn, c.kindEst(path, factKindString, 0))[b] {
					c.R.Ok(rule, k, c.M.InstrPos(call), "reflect.Value.String()", "on every path Kind() == reflect.String was established for this Value")
				} else {
					c.R.Bad(rule, k, c.M.InstrPos(call), "reflect.Value.String() on a Value that is not known to hold a string",
						"for any other kind String() returns a placeholder like \"<int64 Value>\" instead of the value: an error path segment or message built from it no longer names the element (use fmt %v or Interface())")
				}
			}
		}
	}
	c.R.Note("%s: %d calls of reflect.Value.String in scope", rule, n)
}

// ownReflectedMap: the map Value was made by reflect.MakeMapWithSize / MakeMap from the receiver's own ReflectedType().
func (c *Ctx) ownReflectedMap(m ssa.Value) bool {
	mk, ok := m.(*ssa.Call)
	if !ok {
		return false
	}
	n := core.StaticCalleeName(&mk.Call)
	if n != "reflect.MakeMapWithSize" && n != "reflect.MakeMap" {
		return false
	}
	// (the type may be handed to a worker by the function that asked the schema for it)
	for _, src := range core.ParamSources(mk.Call.Args[0]) {
		t, ok := src.(*ssa.Call)
		if !ok {
			return false
		}
		if t.Call.IsInvoke() {
			if t.Call.Method.Name() != "ReflectedType" {
				return false
			}
			continue
		}
		if !strings.HasSuffix(core.StaticCalleeName(&t.Call), ".ReflectedType") {
			return false
		}
	}
	return true
}

// isChildUnserializeResult: reflect.ValueOf(<result #0 of an invoke of Unserialize on a child-schema field>).
func (c *Ctx) isChildUnserializeResult(k ssa.Value) bool {
	x := valueOfArg(k)
	if x == nil {
		// handed out by a worker of the package (the conversion of one entry, moved into a function of its own): every
		// way out of it that hands a value out in that position hands out such a result
		if hex, isEx := k.(*ssa.Extract); isEx {
			if hc, isCall := hex.Tuple.(*ssa.Call); isCall {
				if h := core.StaticBody(&hc.Call); h != nil && len(core.PlainSites(h)) > 0 {
					n := 0
					for _, site := range core.RetSites(h, hex.Index) {
						v := core.Unwrap(site.Val)
						if ld, isLoad := v.(*ssa.UnOp); isLoad {
							if _, isAlloc := ld.X.(*ssa.Alloc); isAlloc {
								continue // the zero Value of a failing way out (`none := reflect.Value{}`)
							}
						}
						if _, isZero := v.(*ssa.Const); isZero {
							continue
						}
						if v == k || !c.isChildUnserializeResult(v) {
							return false
						}
						n++
					}
					return n > 0
				}
			}
		}
		return false
	}
	ex, ok := x.(*ssa.Extract)
	if !ok || ex.Index != 0 {
		return false
	}
	call, ok := ex.Tuple.(*ssa.Call)
	return ok && call.Call.IsInvoke() && call.Call.Method.Name() == "Unserialize"
}

// ---- (i) reflect.Value.Set / SetMapIndex: the value is assignable to the destination ----------------------------------
//
// dst.Set(v) and m.SetMapIndex(k, v) panic ("value of type X is not assignable to type Y") when the dynamic type of v
// does not fit. The containers build their result with a type that is known only at run time (the item schema's
// ReflectedType()) and fill it with what the item schema's Unserialize returned: the two agree only as long as every
// schema type keeps to what it declares (a one-of over a Go interface with a member that does not implement it does
// not). Obligation, for every Value argument that wraps a value of interface type (reflect.ValueOf(x), x dynamic):
// on every path Type().AssignableTo(..) of that very Value was found true, the Value is the result of Convert, or the
// call sits in a recover scope.
func (c *Ctx) reflectSetAssignable(rule string, fn *ssa.Function, b *ssa.BasicBlock, call *ssa.Call, m string, cnt map[string]int) {
	for i := 1; i < len(call.Call.Args); i++ {
		arg := call.Call.Args[i]
		x := valueOfArg(arg)
		if x == nil {
			if conv, ok := arg.(*ssa.Call); ok && reflectValueMethod(conv) == "Convert" {
				cnt["assign"]++
				c.R.Ok(rule, key(rule, c.M.Key(fn), sprintf("%s argument #%d is assignable to the destination #%d", m, i, cnt["assign"])), c.M.InstrPos(call),
					"reflect.Value."+m+" with a dynamically typed value", "the argument is the result of Convert to a type taken from the destination")
			}
			continue
		}
		if _, isIface := x.Type().Underlying().(*types.Interface); !isIface {
			continue
		}
		cnt["assign"]++
		k := key(rule, c.M.Key(fn), sprintf("%s argument #%d is assignable to the destination #%d", m, i, cnt["assign"]))
		what := "reflect.Value." + m + " with a dynamically typed value"
		path := c.reflPath(arg, 0)
		est := func(cond core.Cond) bool {
			ac, ok := cond.V.(*ssa.Call)
			if !ok || !cond.True || !ac.Call.IsInvoke() || ac.Call.Method.Name() != "AssignableTo" {
				return false
			}
			tc, ok := ac.Call.Value.(*ssa.Call)
			return ok && reflectValueMethod(tc) == "Type" && c.reflPath(tc.Call.Args[0], 0) == path
		}
		switch {
		case isRecoverScope(fn):
			c.R.Ok(rule, k, c.M.InstrPos(call), what, "the function recovers: the panic becomes the recovered error")
		case core.MustHold(fn, est)[b]:
			c.R.Ok(rule, k, c.M.InstrPos(call), what, "on every path Type().AssignableTo(...) of the same Value was found true")
		default:
			c.R.Bad(rule, k, c.M.InstrPos(call), "reflect.Value."+m+" may receive a value that is not assignable to the destination",
				"the destination's type is what the item schema declares (ReflectedType()), the value is what its Unserialize returned: a schema type that does not keep to its declaration (a one-of over a Go interface with a map-based member) makes "+m+" panic instead of the value being refused")
		}
	}
}
