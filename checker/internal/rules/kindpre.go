package rules

import (
	"go/token"
	"go/types"
	"sort"
	"strings"

	"golang.org/x/tools/go/ssa"

	"verifcheck/internal/core"
)

// R-KINDPRE (C04 "never panics"): the methods of reflect.Value that only work for some kinds - Len, Index, MapKeys,
// MapIndex, MapRange, SetMapIndex, NumField, Field, FieldByName, FieldByIndex, Elem, IsNil, Int, Uint, Float, Bool,
// Slice, Cap - panic on a Value of any other kind ("reflect: call of reflect.Value.Len on ptr Value"). In the functions
// reachable from the data API outside a recover scope every such call is an obligation: the kind of *that* Value (not
// of what it points to, not of another Value) is known to be one the method accepts
//   - from the way the Value was made (reflect.MakeSlice, MakeMap, New, ValueOf / Convert / Zero of a static type, the
//     field of a static struct type, the element of a Value whose static type says what its elements are),
//   - from a comparison of its Kind() with constants that holds on every path (switch cases and != chains included),
//     CanInt / CanUint / CanFloat for the number getters, or the nil-error outcome of a callee that returns nil only
//     where such a comparison held for the same argument,
//   - because the Value is a parameter and every caller has established the fact for its argument,
//   - or the function recovers.
var kindReq = map[string][]int64{
	"Len": {17, 18, 21, 23, 24}, "Index": {17, 23, 24}, "Slice": {17, 23, 24}, "Cap": {17, 18, 23},
	"MapKeys": {21}, "MapIndex": {21}, "MapRange": {21}, "SetMapIndex": {21},
	"NumField": {25}, "Field": {25}, "FieldByName": {25}, "FieldByIndex": {25}, "FieldByIndexErr": {25}, "FieldByNameFunc": {25},
	"Elem": {20, 22}, "IsNil": {18, 19, 20, 21, 22, 23, 26},
	"Int": {2, 3, 4, 5, 6}, "Uint": {7, 8, 9, 10, 11, 12}, "Float": {13, 14}, "Bool": {1},
}

var kindNames = []string{"Invalid", "Bool", "Int", "Int8", "Int16", "Int32", "Int64", "Uint", "Uint8", "Uint16", "Uint32", "Uint64", "Uintptr",
	"Float32", "Float64", "Complex64", "Complex128", "Array", "Chan", "Func", "Interface", "Map", "Pointer", "Slice", "String", "Struct", "UnsafePointer"}

func kindSetString(ks []int64) string {
	var out []string
	for _, k := range ks {
		out = append(out, kindNames[k])
	}
	return strings.Join(out, "|")
}

// kindOfType: the reflect.Kind of a static type (-1: an interface or type parameter: not known).
func kindOfType(t types.Type) int64 {
	switch u := t.Underlying().(type) {
	case *types.Basic:
		switch u.Kind() {
		case types.Bool:
			return 1
		case types.Int:
			return 2
		case types.Int8:
			return 3
		case types.Int16:
			return 4
		case types.Int32:
			return 5
		case types.Int64:
			return 6
		case types.Uint:
			return 7
		case types.Uint8:
			return 8
		case types.Uint16:
			return 9
		case types.Uint32:
			return 10
		case types.Uint64:
			return 11
		case types.Uintptr:
			return 12
		case types.Float32:
			return 13
		case types.Float64:
			return 14
		case types.String:
			return 24
		case types.UnsafePointer:
			return 26
		}
	case *types.Array:
		return 17
	case *types.Chan:
		return 18
	case *types.Signature:
		return 19
	case *types.Map:
		return 21
	case *types.Pointer:
		return 22
	case *types.Slice:
		return 23
	case *types.Struct:
		return 25
	}
	return -1
}

func inKinds(k int64, ks []int64) bool {
	for _, x := range ks {
		if x == k {
			return true
		}
	}
	return false
}

// staticValueType: the static Go type of what the reflect.Value v holds, if the way it was made tells (nil otherwise).
func (c *Ctx) staticValueType(v ssa.Value, depth int) types.Type {
	if depth > 6 {
		return nil
	}
	call, ok := v.(*ssa.Call)
	if !ok {
		if ld, isLoad := v.(*ssa.UnOp); isLoad && ld.Op == token.MUL {
			// a local copy: one store
			if al, isAl := ld.X.(*ssa.Alloc); isAl {
				var only ssa.Value
				n := 0
				for _, r := range *al.Referrers() {
					if st, ok := r.(*ssa.Store); ok && st.Addr == ssa.Value(al) {
						n++
						only = st.Val
					}
				}
				if n == 1 {
					return c.staticValueType(only, depth+1)
				}
			}
		}
		return nil
	}
	name := core.StaticCalleeName(&call.Call)
	switch name {
	case "reflect.ValueOf":
		x := call.Call.Args[0]
		if mi, ok := x.(*ssa.MakeInterface); ok {
			if _, isIface := mi.X.Type().Underlying().(*types.Interface); !isIface {
				if _, isTP := mi.X.Type().(*types.TypeParam); !isTP {
					return mi.X.Type()
				}
			}
		}
		return nil
	case "reflect.MakeSlice":
		return types.NewSlice(types.Typ[types.Invalid])
	case "reflect.MakeMap", "reflect.MakeMapWithSize":
		return types.NewMap(types.Typ[types.Invalid], types.Typ[types.Invalid])
	case "reflect.New":
		if t := core.ReflectTypeOfStatic(call.Call.Args[0]); t != nil {
			return types.NewPointer(t)
		}
		return types.NewPointer(types.Typ[types.Invalid])
	case "reflect.Zero":
		if t := core.ReflectTypeOfStatic(call.Call.Args[0]); t != nil {
			return t
		}
		return nil
	case "reflect.Indirect":
		t := c.staticValueType(call.Call.Args[0], depth+1)
		if t == nil {
			return nil
		}
		if p, ok := t.Underlying().(*types.Pointer); ok {
			if p.Elem() == types.Typ[types.Invalid] {
				return nil
			}
			return p.Elem()
		}
		return t
	}
	switch reflectValueMethod(call) {
	case "Convert":
		if t := core.ReflectTypeOfStatic(call.Call.Args[1]); t != nil {
			if _, isTP := t.(*types.TypeParam); !isTP {
				return t
			}
		}
	case "Elem":
		t := c.staticValueType(call.Call.Args[0], depth+1)
		if t == nil {
			return nil
		}
		if p, ok := t.Underlying().(*types.Pointer); ok && p.Elem() != types.Typ[types.Invalid] {
			return p.Elem()
		}
	case "Index":
		t := c.staticValueType(call.Call.Args[0], depth+1)
		if t == nil {
			return nil
		}
		switch u := t.Underlying().(type) {
		case *types.Slice:
			if u.Elem() != types.Typ[types.Invalid] {
				if _, isIface := u.Elem().Underlying().(*types.Interface); !isIface {
					return u.Elem()
				}
			}
		case *types.Array:
			return u.Elem()
		}
	case "Field":
		t := c.staticValueType(call.Call.Args[0], depth+1)
		if t == nil {
			return nil
		}
		if st, ok := t.Underlying().(*types.Struct); ok {
			if i, isConst := core.ConstInt(call.Call.Args[1]); isConst && int(i) < st.NumFields() {
				ft := st.Field(int(i)).Type()
				if _, isIface := ft.Underlying().(*types.Interface); !isIface {
					return ft
				}
			}
		}
	case "FieldByName":
		t := c.staticValueType(call.Call.Args[0], depth+1)
		if t == nil {
			return nil
		}
		if st, ok := t.Underlying().(*types.Struct); ok {
			if n, isConst := core.ConstString(call.Call.Args[1]); isConst {
				for i := 0; i < st.NumFields(); i++ {
					if st.Field(i).Name() == n {
						ft := st.Field(i).Type()
						if _, isIface := ft.Underlying().(*types.Interface); !isIface {
							return ft
						}
					}
				}
			}
		}
	}
	return nil
}

func (c *Ctx) ruleKindPre(rule string, fns map[*ssa.Function]bool) {
	n := 0
	for _, fn := range c.M.SortedFuncs(fns) {
		cnt := map[string]int{}
		for _, b := range fn.Blocks {
			for _, in := range b.Instrs {
				call, ok := in.(*ssa.Call)
				if !ok {
					continue
				}
				m := reflectValueMethod(call)
				allowed, has := kindReq[m]
				if !has || len(call.Call.Args) == 0 {
					continue
				}
				recv := call.Call.Args[0]
				n++
				path := c.reflPath(recv, 0)
				cnt[m+path]++
				k := key(rule, c.M.Key(fn), sprintf("%s on %s #%d: the kind of that Value is one of %s", m, c.stable(fn, path), cnt[m+path], kindSetString(allowed)))
				what := "reflect.Value." + m + " (works for " + kindSetString(allowed) + " only)"
				if why := c.kindKnown(fn, b, recv, allowed, 0); why != "" {
					c.R.Ok(rule, k, c.M.InstrPos(call), what, why)
					continue
				}
				if why := c.resultKind(fn, recv, allowed); why != "" {
					c.R.Ok(rule, k, c.M.InstrPos(call), what, why)
					continue
				}
				if inKinds(25, allowed) || inKinds(22, allowed) {
					if c.ownTypeValue(fn, b, recv, 0) {
						c.R.Except(rule, k, c.M.InstrPos(call), what, "E-OWNTYPE: the Value is of the type the object schema was constructed for - made by reflect.New of the type of the schema's default value, or reflect.ValueOf(x) where reflect.TypeOf(x) was compared with the schema's ReflectedType() - dereferenced where it is a pointer. That this type is a struct or a pointer to one is what the constructors check (validateObjectIsStruct; confirmed by reading)")
						continue
					}
				}
				if why := c.probedField(recv, allowed); why != "" {
					c.R.Except(rule, k, c.M.InstrPos(call), what, why)
					continue
				}
				c.R.Bad(rule, k, c.M.InstrPos(call), "reflect.Value."+m+" on a Value whose kind is not known to be "+kindSetString(allowed),
					"the call panics for any other kind (a pointer to the container, a value of another shape, the zero Value) instead of the value being refused; no Kind() comparison on this very Value, no provenance and no recover scope covers the call")
			}
		}
	}
	c.R.Note("%s: %d kind-restricted reflect.Value method calls examined", rule, n)
}

// kindKnown: why the kind of the Value recv is known to be in allowed at block b of fn ("" if it is not).
func (c *Ctx) kindKnown(fn *ssa.Function, b *ssa.BasicBlock, recv ssa.Value, allowed []int64, depth int) string {
	if isRecoverScope(fn) {
		return "the function recovers: the panic becomes the recovered error"
	}
	if fn.Parent() != nil && isRecoverScope(fn.Parent()) && false {
		return ""
	}
	if phi, isPhi := recv.(*ssa.Phi); isPhi && depth < 3 && len(phi.Edges) > 0 {
		all := true
		for i, e := range phi.Edges {
			if c.kindKnown(fn, phi.Block().Preds[i], e, allowed, depth+1) == "" {
				all = false
			}
		}
		if all {
			return "every value that meets here is of one of the kinds (each known where it comes from)"
		}
	}
	if t := c.staticValueType(recv, 0); t != nil {
		if k := kindOfType(t); k >= 0 {
			if inKinds(k, allowed) {
				return "the Value was made with a type of kind " + kindNames[k] + " (" + c.madeBy(recv) + ")"
			}
		}
	}
	path := c.reflPath(recv, 0)
	fact := kindFact{accept: func(k int64, eq bool) bool { return eq && inKinds(k, allowed) }}
	base := c.kindEst(path, fact, 0)
	est := func(cond core.Cond) bool {
		if base(cond) {
			return true
		}
		// reflect.Indirect(v) is v when v is known not to be a pointer: a non-pointer fact on v carries over
		if strings.HasPrefix(path, "reflect.Indirect(") && !inKinds(22, allowed) {
			inner := strings.TrimSuffix(strings.TrimPrefix(path, "reflect.Indirect("), ")")
			if c.kindEst(inner, fact, 0)(cond) {
				return true
			}
		}
		if cc, ok := cond.V.(*ssa.Call); ok && cond.True {
			mm := reflectValueMethod(cc)
			if len(cc.Call.Args) > 0 && c.reflPath(cc.Call.Args[0], 0) == path {
				switch {
				case mm == "CanInt" && inKinds(2, allowed), mm == "CanUint" && inKinds(7, allowed), mm == "CanFloat" && inKinds(13, allowed):
					return true
				}
			}
		}
		return false
	}
	if core.MustHold(fn, est)[b] {
		return "on every path a Kind() comparison of this very Value (or CanInt/CanUint/CanFloat, or the nil-error outcome of a callee that makes it) established one of " + kindSetString(allowed)
	}
	// a switch on Kind() lowers to comparisons of one Kind() call result: handled above. A Kind() result kept in a
	// local (k := v.Kind(); if k != reflect.Slice {...}) is the same call value.
	// parameter: every caller establishes the fact
	if depth < 2 {
		if p, wrapper := rootParam(recv); p != nil && (recv == ssa.Value(p) || wrapper || !inKinds(22, allowed)) {
			pi := -1
			for i, q := range fn.Params {
				if q == p {
					pi = i
				}
			}
			sites, ok := 0, pi >= 0
			for _, g := range c.M.Funcs {
				if !ok {
					break
				}
				for _, gb := range g.Blocks {
					for _, gin := range gb.Instrs {
						ci, isCall := gin.(ssa.CallInstruction)
						if !isCall {
							continue
						}
						hit := false
						for _, callee := range c.M.Callees(ci.Common()) {
							if callee == fn {
								hit = true
							}
						}
						if !hit {
							continue
						}
						ai := pi
						if ci.Common().IsInvoke() {
							ai = pi - 1
						}
						if ai < 0 || ai >= len(ci.Common().Args) {
							ok = false
							continue
						}
						sites++
						arg := ci.Common().Args[ai]
						var av ssa.Value = arg
						if wrapper {
							av = syntheticValueOf{arg}
						}
						if c.kindKnownArg(g, gb, av, arg, wrapper, allowed, depth+1) == "" {
							ok = false
						}
					}
				}
			}
			if ok && sites > 0 {
				return sprintf("the Value comes from parameter %s, and each of the %d call site(s) has established the kind for its argument", p.Name(), sites)
			}
		}
	}
	return ""
}

// syntheticValueOf stands for reflect.ValueOf(x) of a caller's argument x (never inspected as an instruction).
type syntheticValueOf struct{ ssa.Value }

// kindKnownArg: at the call site in g, the kind fact for the argument (or, with wrapper, for reflect.ValueOf(argument)).
func (c *Ctx) kindKnownArg(g *ssa.Function, gb *ssa.BasicBlock, _ ssa.Value, arg ssa.Value, wrapper bool, allowed []int64, depth int) string {
	if isRecoverScope(g) {
		return "recovers"
	}
	if !wrapper {
		return c.kindKnown(g, gb, arg, allowed, depth)
	}
	// the callee wraps its parameter itself: the fact is about reflect.ValueOf(arg) in the caller
	if mi, ok := arg.(*ssa.MakeInterface); ok {
		if _, isIface := mi.X.Type().Underlying().(*types.Interface); !isIface {
			if k := kindOfType(mi.X.Type()); k >= 0 && inKinds(k, allowed) {
				return "static type"
			}
		}
	}
	path := "reflect.ValueOf(" + c.reflPath(arg, 0) + ")"
	fact := kindFact{accept: func(k int64, eq bool) bool { return eq && inKinds(k, allowed) }}
	if core.MustHold(g, c.kindEst(path, fact, 0))[gb] {
		return "kind established in the caller"
	}
	return ""
}

// rootParam: recv is a parameter of reflect.Value type (wrapper false), or reflect.ValueOf(parameter) (wrapper true).
func rootParam(recv ssa.Value) (*ssa.Parameter, bool) {
	if p, ok := recv.(*ssa.Parameter); ok {
		return p, false
	}
	// reflect.Indirect(p) is p itself when p is known not to be a pointer: the caller's fact about its argument carries
	// over (the callers of rootParam ask for kinds other than Pointer in that case, see kindKnown)
	if call, ok := recv.(*ssa.Call); ok && core.StaticCalleeName(&call.Call) == "reflect.Indirect" {
		if p, ok := call.Call.Args[0].(*ssa.Parameter); ok {
			return p, false
		}
	}
	if call, ok := recv.(*ssa.Call); ok && core.StaticCalleeName(&call.Call) == "reflect.ValueOf" {
		x := call.Call.Args[0]
		if mi, ok := x.(*ssa.MakeInterface); ok {
			x = mi.X
		}
		if p, ok := x.(*ssa.Parameter); ok {
			return p, true
		}
	}
	return nil, false
}

func (c *Ctx) madeBy(v ssa.Value) string {
	if call, ok := v.(*ssa.Call); ok {
		if n := core.StaticCalleeName(&call.Call); n != "" {
			return n
		}
	}
	return "a local copy"
}

var _ = sort.Strings

// resultKind: recv is reflect.ValueOf(r) for r the first result of a call whose callees all return, wherever their error
// may be nil, X.Interface() of a Value X made with a kind in allowed.
func (c *Ctx) resultKind(fn *ssa.Function, recv ssa.Value, allowed []int64) string {
	call, ok := recv.(*ssa.Call)
	if !ok || core.StaticCalleeName(&call.Call) != "reflect.ValueOf" {
		return ""
	}
	x := call.Call.Args[0]
	for i := 0; i < 3; i++ {
		switch y := x.(type) {
		case *ssa.MakeInterface:
			x = y.X
			continue
		case *ssa.ChangeInterface:
			x = y.X
			continue
		}
		break
	}
	ex, ok := x.(*ssa.Extract)
	if !ok || ex.Index != 0 {
		return ""
	}
	inner, ok := ex.Tuple.(*ssa.Call)
	if !ok {
		return ""
	}
	names := map[string]bool{}
	if !c.callResultKind(inner, allowed, names, 0) {
		return ""
	}
	var list []string
	for n := range names {
		list = append(list, n)
	}
	sort.Strings(list)
	return "the Value wraps the result of " + strings.Join(list, ", ") + ", which is, wherever the error may be nil, Interface() of a Value made with a kind of " + kindSetString(allowed)
}

// callResultKind: the first result of every callee of call is, wherever the callee's error may be nil, X.Interface() of a
// Value X of a kind in allowed - or the first result of a call of which the same holds.
func (c *Ctx) callResultKind(call *ssa.Call, allowed []int64, names map[string]bool, depth int) bool {
	callees := c.M.Callees(&call.Call)
	if len(callees) == 0 || depth > 3 {
		return false
	}
	for _, g := range callees {
		if len(g.Blocks) == 0 {
			return false
		}
		ei := core.ErrorResultIndex(g.Signature)
		for _, r := range core.ReturnsOf(g) {
			if ei >= 0 && errDefinitelyNonNil(core.RetVal(r, ei), r.Block()) {
				continue
			}
			v := core.Unwrap(core.RetVal(r, 0))
			if core.IsNilConst(v) && ei >= 0 && !core.IsNilConst(core.RetVal(r, ei)) {
				continue // (nil, err) with an error that is not the nil constant: a failure
			}
			if ex, ok := v.(*ssa.Extract); ok && ex.Index == 0 {
				if ic, ok := ex.Tuple.(*ssa.Call); ok && c.callResultKind(ic, allowed, names, depth+1) {
					continue
				}
				return false
			}
			ic, ok := v.(*ssa.Call)
			if !ok || reflectValueMethod(ic) != "Interface" {
				return false
			}
			if c.kindKnown(g, r.Block(), ic.Call.Args[0], allowed, 1) == "" {
				return false
			}
			names[c.M.Key(g)] = true
		}
	}
	return true
}

// ownTypeValue: see E-OWNTYPE.
func (c *Ctx) ownTypeValue(fn *ssa.Function, b *ssa.BasicBlock, v ssa.Value, depth int) bool {
	if depth > 6 || len(fn.Params) == 0 {
		return false
	}
	switch x := v.(type) {
	case *ssa.Phi:
		for i, e := range x.Edges {
			if !c.ownTypeValue(fn, x.Block().Preds[i], e, depth+1) {
				return false
			}
		}
		return len(x.Edges) > 0
	case *ssa.UnOp:
		if al, ok := x.X.(*ssa.Alloc); ok && x.Op == token.MUL {
			n := 0
			for _, r := range *al.Referrers() {
				if st, ok := r.(*ssa.Store); ok && st.Addr == ssa.Value(al) {
					n++
					if !c.ownTypeValue(fn, st.Block(), st.Val, depth+1) {
						return false
					}
				}
			}
			return n > 0
		}
	case *ssa.Parameter:
		pi := -1
		for i, q := range fn.Params {
			if q == x {
				pi = i
			}
		}
		if pi < 0 {
			return false
		}
		sites := 0
		for _, g := range c.M.Funcs {
			for _, gb := range g.Blocks {
				for _, gin := range gb.Instrs {
					ci, isCall := gin.(ssa.CallInstruction)
					if !isCall {
						continue
					}
					for _, callee := range c.M.Callees(ci.Common()) {
						if callee != fn {
							continue
						}
						ai := pi
						if ci.Common().IsInvoke() {
							ai = pi - 1
						}
						if ai < 0 || ai >= len(ci.Common().Args) {
							return false
						}
						sites++
						if !c.ownTypeValue(g, gb, ci.Common().Args[ai], depth+1) {
							return false
						}
					}
				}
			}
		}
		return sites > 0
	case *ssa.Call:
		switch core.StaticCalleeName(&x.Call) {
		case "reflect.New":
			// the type: reflect.TypeOf(receiver.<field>) or its Elem()
			return derivedFrom(x.Call.Args[0], func(y ssa.Value) bool {
				tc, ok := y.(*ssa.Call)
				if !ok || core.StaticCalleeName(&tc.Call) != "reflect.TypeOf" {
					return false
				}
				return reachedFrom(tc.Call.Args[0], fn.Params[0], 0)
			})
		case "reflect.ValueOf":
			arg := x.Call.Args[0]
			ap := c.reflPath(arg, 0)
			est := func(cond core.Cond) bool {
				bin, ok := cond.V.(*ssa.BinOp)
				if !ok || (bin.Op != token.EQL && bin.Op != token.NEQ) || (bin.Op == token.EQL) != cond.True {
					return false
				}
				isTypeOf := func(v ssa.Value) bool {
					tc, ok := core.Unwrap(v).(*ssa.Call)
					return ok && core.StaticCalleeName(&tc.Call) == "reflect.TypeOf" && c.reflPath(tc.Call.Args[0], 0) == ap
				}
				isOwn := func(v ssa.Value) bool {
					rc, ok := core.Unwrap(v).(*ssa.Call)
					if !ok || c.calledMethodName(rc) != "ReflectedType" {
						return false
					}
					var r ssa.Value
					if rc.Call.IsInvoke() {
						r = rc.Call.Value
					} else if len(rc.Call.Args) > 0 {
						r = rc.Call.Args[0]
					}
					return r != nil && reachedFrom(r, fn.Params[0], 0)
				}
				return (isTypeOf(bin.X) && isOwn(bin.Y)) || (isTypeOf(bin.Y) && isOwn(bin.X))
			}
			return core.MustHold(fn, est)[b]
		}
		if reflectValueMethod(x) == "Elem" {
			return c.ownTypeValue(fn, b, x.Call.Args[0], depth+1)
		}
	}
	return false
}

// probedField: recv is FieldByName("X") of some struct Value, and every struct type of the SDK that has a field named X
// declares it with a kind in allowed (E-PROBE).
func (c *Ctx) probedField(recv ssa.Value, allowed []int64) string {
	call, ok := recv.(*ssa.Call)
	if !ok || reflectValueMethod(call) != "FieldByName" || len(call.Call.Args) != 2 {
		return ""
	}
	name, isConst := core.ConstString(call.Call.Args[1])
	if !isConst {
		return ""
	}
	n := 0
	for _, pkg := range c.M.Pkgs {
		scope := pkg.Types.Scope()
		for _, tn := range scope.Names() {
			obj, ok := scope.Lookup(tn).(*types.TypeName)
			if !ok {
				continue
			}
			st, ok := obj.Type().Underlying().(*types.Struct)
			if !ok {
				continue
			}
			for i := 0; i < st.NumFields(); i++ {
				if st.Field(i).Name() != name {
					continue
				}
				n++
				if k := kindOfType(st.Field(i).Type()); k < 0 || !inKinds(k, allowed) {
					return ""
				}
			}
		}
	}
	if n == 0 {
		return ""
	}
	return sprintf("E-PROBE: the Value is the field %q found by name in a schema handed in as the producer; each of the %d struct types of the SDK with a field of that name declares it with a kind of %s (a struct of another origin with such a field is neither a schema nor anything a decoder produces)", name, n, kindSetString(allowed))
}
