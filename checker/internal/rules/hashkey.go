package rules

import (
	"go/token"
	"go/types"
	"sort"
	"strings"

	"golang.org/x/tools/go/ssa"

	"verifcheck/internal/core"
)

// R-HASHKEY: a map insertion `m[k] = v` whose key has interface type panics at run time ("hash of unhashable
// type") when the dynamic type of k is a slice, map or func (or a struct/array containing one).
// Sites: every MapUpdate with an interface-typed key in the data scope.
// Discharge, in order:
//   1. the dynamic-type provenance of k contains hashable types only; or k is itself a key of an existing map;
//   2. relational: k = f(K.Interface()) where K is a key of an existing map (an element of reflect.Value.MapKeys()
//      or MapRange().Key()) - such a value is hashable, so its Kind is not Slice, Map or Func - and every return of f
//      whose result may be of an unhashable type sits where, on every path, Kind(reflect.ValueOf(param)) was found
//      to be Slice, Map or Func (MustHold over branch edges: covers `case A, B:` and fallthrough).
// Everything else is a violation: the insertion can panic for some decoder-producible input.

func hashable(t types.Type) bool {
	if tp, ok := t.(*types.TypeParam); ok {
		// a type parameter whose type set consists of non-interface comparable terms (e.g. ~int64 | ~string)
		return coreNonInterface(tp) && types.Comparable(tp)
	}
	return types.Comparable(t) && !hasInterfaceInside(t, 0)
}

func hasInterfaceInside(t types.Type, depth int) bool {
	if depth > 6 {
		return true
	}
	switch u := t.Underlying().(type) {
	case *types.Interface:
		return true
	case *types.Struct:
		for i := 0; i < u.NumFields(); i++ {
			if hasInterfaceInside(u.Field(i).Type(), depth+1) {
				return true
			}
		}
	case *types.Array:
		return hasInterfaceInside(u.Elem(), depth+1)
	}
	return false
}

// unhashableKinds: reflect.Slice, reflect.Map, reflect.Func - the kinds no map key can have.
var unhashableKinds = map[int64]string{23: "Slice", 21: "Map", 19: "Func"}

var factUnhashableKind = kindFact{accept: func(k int64, eq bool) bool { return eq && unhashableKinds[k] != "" }}

// isExistingMapKey: v is K.Interface() with K an element of a MapKeys() result (or MapRange().Key()).
func isExistingMapKey(v ssa.Value) bool {
	call, ok := v.(*ssa.Call)
	if !ok || core.StaticCalleeName(&call.Call) != "(reflect.Value).Interface" {
		return false
	}
	k := call.Call.Args[0]
	if u, ok := k.(*ssa.UnOp); ok && u.Op == token.MUL {
		if ia, ok := u.X.(*ssa.IndexAddr); ok {
			if src, ok := ia.X.(*ssa.Call); ok && core.StaticCalleeName(&src.Call) == "(reflect.Value).MapKeys" {
				return true
			}
		}
	}
	if kc, ok := k.(*ssa.Call); ok && core.StaticCalleeName(&kc.Call) == "(*reflect.MapIter).Key" {
		return true
	}
	return false
}

// isSameExistingKey: v is the very value of a key of an existing map, looked at through assertions / boxing only.
func isSameExistingKey(v ssa.Value) bool {
	for i := 0; i < 6; i++ {
		if isExistingMapKey(v) {
			return true
		}
		switch x := v.(type) {
		case *ssa.Extract:
			if nx, ok := x.Tuple.(*ssa.Next); ok && !nx.IsString && x.Index == 1 {
				if _, isRange := nx.Iter.(*ssa.Range); isRange {
					return true
				}
			}
			if ta, ok := x.Tuple.(*ssa.TypeAssert); ok && x.Index == 0 {
				v = ta.X
				continue
			}
			return false
		case *ssa.TypeAssert:
			v = x.X
		case *ssa.MakeInterface:
			v = x.X
		case *ssa.ChangeInterface:
			v = x.X
		default:
			return false
		}
	}
	return false
}

// returnsUnhashableOnlyForUnhashableKinds: see (2) above. Returns "" when the summary holds, else the offending return.
func (c *Ctx) returnsUnhashableOnlyForUnhashableKinds(dt *core.DynTypes, f *ssa.Function, resIdx, paramIdx int) (string, bool) {
	if len(f.Blocks) == 0 || paramIdx >= len(f.Params) {
		return "no body", false
	}
	want := "reflect.ValueOf(" + c.M.ValPath(f.Params[paramIdx]) + ")"
	hold := core.MustHold(f, c.kindEst(want, factUnhashableKind, 0))
	checked := 0
	for _, ret := range core.ReturnsOf(f) {
		v := core.RetVal(ret, resIdx)
		if v == nil {
			return "unresolved return value at " + c.M.InstrPos(ret), false
		}
		ts := dt.Of(v, ret.Block())
		bad := ts.Top
		for _, t := range ts.Types {
			if !hashable(t) {
				bad = true
			}
		}
		if !bad {
			continue
		}
		checked++
		if !hold[ret.Key()] {
			return "the return at " + c.M.InstrPos(ret) + " may yield " + ts.String() + " although the argument's kind is not established as Slice, Map or Func on every path to it", false
		}
	}
	return sprintf("%d returns of a possibly unhashable type, each reached only with Kind in {Slice, Map, Func}", checked), true
}

func (c *Ctx) ruleHashKey(rule string, fns map[*ssa.Function]bool) {
	dt := core.NewDynTypes(c.M)
	for _, fn := range c.M.SortedFuncs(fns) {
		n := 0
		for _, b := range fn.Blocks {
			for _, in := range b.Instrs {
				mu, ok := in.(*ssa.MapUpdate)
				if !ok {
					continue
				}
				mt, ok := mu.Map.Type().Underlying().(*types.Map)
				if !ok {
					continue
				}
				if _, isIface := mt.Key().Underlying().(*types.Interface); !isIface {
					continue
				}
				n++
				k := key(rule, c.M.Key(fn), sprintf("%s[%s] #%d", c.stable(fn, c.M.ValPath(mu.Map)), c.stable(fn, c.M.ValPath(mu.Key)), n))
				what := "insertion into a map with an interface-typed key"
				ts := dt.Of(mu.Key, b)
				var unh []string
				for _, t := range ts.Types {
					if !hashable(t) {
						unh = append(unh, typeStr(t))
					}
				}
				if !ts.Top && len(unh) == 0 {
					c.R.Ok(rule, k, c.M.InstrPos(mu), what, "the key's dynamic types are all hashable: "+ts.String())
					continue
				}
				if isSameExistingKey(mu.Key) {
					c.R.Ok(rule, k, c.M.InstrPos(mu), what, "the key is itself a key of an existing map (range key, MapKeys element or MapRange key, possibly type-asserted): it has been hashed before")
					continue
				}
				if why, ok, applies := c.hashKeyByKeySchema(dt, mu.Key); applies {
					if ok {
						c.R.Except(rule, k, c.M.InstrPos(mu), what, why)
					} else {
						c.R.Bad(rule, k, c.M.InstrPos(mu), "map key may be of an unhashable dynamic type", why)
					}
					continue
				}
				// relational discharge
				if why, ok := c.hashKeyRelational(dt, mu.Key); ok {
					c.R.Ok(rule, k, c.M.InstrPos(mu), what, why)
					continue
				} else if why != "" {
					c.R.Bad(rule, k, c.M.InstrPos(mu), "map key may be of an unhashable dynamic type", why)
					continue
				}
				desc := "unknown provenance"
				if !ts.Top {
					desc = strings.Join(unh, ", ")
				}
				c.R.Bad(rule, k, c.M.InstrPos(mu), "map key may be of an unhashable dynamic type",
					"the key's dynamic type may be "+desc+"; inserting it panics with 'hash of unhashable type' instead of returning an error")
			}
		}
	}
}

func (c *Ctx) hashKeyRelational(dt *core.DynTypes, k ssa.Value) (string, bool) {
	resIdx := 0
	v := core.Unwrap(k)
	if ex, ok := v.(*ssa.Extract); ok {
		resIdx = ex.Index
		v = ex.Tuple
	}
	call, ok := v.(*ssa.Call)
	if !ok {
		return "", false
	}
	callees := c.M.Callees(&call.Call)
	if len(callees) == 0 {
		return "", false
	}
	for ai, a := range call.Call.Args {
		if !isExistingMapKey(a) {
			continue
		}
		pi := ai
		if call.Call.IsInvoke() {
			pi = ai + 1
		}
		for _, g := range callees {
			why, ok := c.returnsUnhashableOnlyForUnhashableKinds(dt, g, resIdx, pi)
			if !ok {
				return c.M.Key(g) + ": " + why, false
			}
		}
		return "the key is " + c.M.Key(callees[0]) + "(K.Interface()) for a key K of an existing map (hashable, so its Kind is not Slice, Map or Func), and that function returns a possibly unhashable type only where the Kind of its argument was found to be Slice, Map or Func", true
	}
	return "", false
}

// ---- key schemas of maps --------------------------------------------------------------------------------------------
//
// mapKeyGate: the set of TypeIDs a MapSchema's key schema can have. Derived from the code on every run:
//   - every static store to the KeysValue field of MapSchema sits where, on every path, `stored.TypeID() == <const>`
//     was established (the switch with a panicking default in NewMapSchema / NewTypedMapSchema); the constants seen
//     are the allowed set;
//   - the reflective construction path (the struct-mapped meta-schema) takes its key schema from the package
//     variable mapKeyType: its one-of members must be references to scalar key kinds ("Int", "String", enums).
//
// ok=false (with a reason) when a store is not gated.
func (c *Ctx) mapKeyGate() (allowed map[string]bool, why string, ok bool) {
	allowed = map[string]bool{}
	stores := 0
	for _, fn := range c.M.SortedFuncs(c.scopeAll()) {
		for _, b := range fn.Blocks {
			for _, in := range b.Instrs {
				st, isStore := in.(*ssa.Store)
				if !isStore {
					continue
				}
				fa, isFA := st.Addr.(*ssa.FieldAddr)
				if !isFA {
					continue
				}
				stT, _ := derefType(fa.X.Type()).Underlying().(*types.Struct)
				if stT == nil || stT.Field(fa.Field).Name() != "KeysValue" || !strings.Contains(typeStr(derefType(fa.X.Type())), "MapSchema") {
					continue
				}
				stores++
				stored := core.Unwrap(st.Val)
				local := map[string]bool{}
				hold := core.MustHold(fn, func(cond core.Cond) bool {
					bo, isBin := cond.V.(*ssa.BinOp)
					if !isBin || bo.Op != token.EQL || !cond.True {
						return false
					}
					for _, side := range []ssa.Value{bo.X, bo.Y} {
						call, isCall := side.(*ssa.Call)
						if !isCall || !call.Call.IsInvoke() || call.Call.Method.Name() != "TypeID" || core.Unwrap(call.Call.Value) != stored {
							continue
						}
						other := bo.Y
						if side == bo.Y {
							other = bo.X
						}
						if s, isConst := core.ConstString(other); isConst {
							local[s] = true
							return true
						}
					}
					return false
				})
				if !hold[b] {
					return nil, "the store to MapSchema.KeysValue at " + c.M.InstrPos(st) + " (" + c.M.Key(fn) + ") is not dominated by a TypeID gate on the stored key schema", false
				}
				for s := range local {
					allowed[s] = true
				}
			}
		}
	}
	if stores == 0 {
		return nil, "no store to MapSchema.KeysValue found", false
	}
	// reflective construction: the struct-mapped meta object of MapSchema takes the key schema from its "keys" row
	metaRows := 0
	for _, mo := range c.metaObjects("R-HASHKEY") {
		if !strings.Contains(typeStr(mo.typ), "MapSchema[") {
			continue
		}
		row := mo.props["keys"]
		if row == nil {
			return nil, "the meta object " + mo.id + " has no \"keys\" row", false
		}
		pc, isCall := c.resolveInit(row, 0).(*ssa.Call)
		if !isCall || calleeOriginName(pc) != "NewPropertySchema" {
			return nil, "the \"keys\" row of meta object " + mo.id + " is not a NewPropertySchema call", false
		}
		table, ok := c.oneOfTable(pc.Call.Args[0])
		if !ok {
			return nil, "the \"keys\" row of meta object " + mo.id + " is not a statically evaluable one-of", false
		}
		for k := range table {
			if !allowed[k] {
				return nil, "the meta-schema lets a loaded map schema use key kind \"" + k + "\", which the constructors' TypeID gate does not allow", false
			}
		}
		metaRows++
	}
	if metaRows == 0 {
		return nil, "no struct-mapped meta object for MapSchema found", false
	}
	return allowed, sprintf("%d stores to MapSchema.KeysValue, each gated by a TypeID switch; allowed key kinds: %s", stores, strings.Join(sortedKeys(allowed), ", ")), true
}

func sortedKeys(m map[string]bool) []string {
	var out []string
	for k := range m {
		out = append(out, k)
	}
	sort.Strings(out)
	return out
}

// typeIDConsts: the constants the TypeID() method of named returns (nil if not all constant).
func (c *Ctx) typeIDConsts(named *types.Named) []string {
	f := c.methodFn(named, "TypeID")
	if f == nil || len(f.Blocks) == 0 {
		return nil
	}
	var out []string
	for _, ret := range core.ReturnsOf(f) {
		s, ok := core.ConstString(core.RetVal(ret, 0))
		if !ok {
			return nil
		}
		out = append(out, s)
	}
	return out
}

// keySchemaCall: k is (a result of) an invoke of a Type method on the KeysValue field of a MapSchema.
func (c *Ctx) keySchemaCall(k ssa.Value) (*ssa.Call, int) {
	resIdx := 0
	v := core.Unwrap(k)
	if ex, ok := v.(*ssa.Extract); ok {
		resIdx = ex.Index
		v = ex.Tuple
	}
	call, ok := v.(*ssa.Call)
	if !ok || !call.Call.IsInvoke() {
		return nil, 0
	}
	if !strings.HasSuffix(c.M.ValPath(call.Call.Value), ".KeysValue") {
		return nil, 0
	}
	return call, resIdx
}

func (c *Ctx) hashKeyByKeySchema(dt *core.DynTypes, k ssa.Value) (string, bool, bool) {
	call, resIdx := c.keySchemaCall(k)
	if call == nil {
		return "", false, false
	}
	allowed, gateWhy, ok := c.mapKeyGate()
	if !ok {
		return gateWhy, false, true
	}
	considered := 0
	for _, named := range c.M.Implementers(call.Call.Value.Type()) {
		g := c.methodFn(named, call.Call.Method.Name())
		if g == nil || len(g.Blocks) == 0 {
			continue
		}
		ids := c.typeIDConsts(named)
		if ids == nil {
			// transparent wrapper: TypeID() is the TypeID() of a field, and the method forwards to the same field;
			// the wrapper passes the gate exactly when the wrapped schema does, and that schema is enumerated here too
			if fld := c.typeIDDelegate(named); fld != "" {
				if bad := c.forwardsOrHashable(dt, g, resIdx, fld); bad == "" {
					continue
				} else {
					return bad, false, true
				}
			}
			// a type whose TypeID is not a constant could pass the gate with any ID
			return named.Obj().Name() + ": TypeID() is not a set of constants", false, true
		}
		pass := false
		for _, id := range ids {
			if allowed[id] {
				pass = true
			}
		}
		if !pass {
			continue
		}
		considered++
		ts := dt.ResultOf(g, resIdx, true)
		bad := ""
		if ts.Top {
			bad = "a value of unknown dynamic type"
		}
		for _, t := range ts.Types {
			if !hashable(t) {
				bad = "the unhashable type " + typeStr(t)
			}
		}
		if bad != "" {
			// relational fallback: the argument is a key of an existing map, so a result that is unhashable only for
			// arguments of kind Slice / Map / Func cannot occur
			if len(call.Call.Args) == 1 && isExistingMapKey(call.Call.Args[0]) {
				if _, ok := c.returnsUnhashableOnlyForUnhashableKinds(dt, g, resIdx, 1); ok {
					continue
				}
			}
			return c.M.Key(g) + " (a possible key schema: TypeID " + strings.Join(ids, "/") + ") may return " + bad, false, true
		}
	}
	if considered == 0 {
		return "no implementer passes the key gate", false, true
	}
	return sprintf("E-MAPKEYSCHEMA: %s; the %d implementers of %s whose TypeID passes that gate return hashable types only", gateWhy, considered, call.Call.Method.Name()), true, true
}

func derefType(t types.Type) types.Type {
	if p, ok := t.Underlying().(*types.Pointer); ok {
		return p.Elem()
	}
	return t
}

// typeIDDelegate: named.TypeID() is `return recv.<field>.TypeID()`; returns the field path.
func (c *Ctx) typeIDDelegate(named *types.Named) string {
	f := c.methodFn(named, "TypeID")
	if f == nil || len(f.Blocks) == 0 {
		return ""
	}
	fld := ""
	for _, ret := range core.ReturnsOf(f) {
		call, ok := core.Unwrap(core.RetVal(ret, 0)).(*ssa.Call)
		if !ok || !call.Call.IsInvoke() || call.Call.Method.Name() != "TypeID" {
			return ""
		}
		p := c.M.ValPath(call.Call.Value)
		if fld != "" && p != fld {
			return ""
		}
		fld = p
	}
	return fld
}

// forwardsOrHashable: every return of g yields either the result of the same method invoked on the field path fld,
// or a value of hashable dynamic type (returns with a provably non-nil error are ignored).
func (c *Ctx) forwardsOrHashable(dt *core.DynTypes, g *ssa.Function, resIdx int, fld string) string {
	ei := core.ErrorResultIndex(g.Signature)
	for _, ret := range core.ReturnsOf(g) {
		if ei >= 0 && c.M.RetNonNil(ret, ei) {
			continue
		}
		v := core.Unwrap(core.RetVal(ret, resIdx))
		if ex, ok := v.(*ssa.Extract); ok {
			v = ex.Tuple
		}
		if call, ok := v.(*ssa.Call); ok && call.Call.IsInvoke() && call.Call.Method.Name() == g.Name() && c.M.ValPath(call.Call.Value) == fld {
			continue
		}
		ts := dt.Of(core.RetVal(ret, resIdx), ret.Block())
		if ts.Top {
			return c.M.Key(g) + ": return at " + c.M.InstrPos(ret) + " yields a value of unknown dynamic type"
		}
		for _, t := range ts.Types {
			if !hashable(t) {
				return c.M.Key(g) + ": return at " + c.M.InstrPos(ret) + " may yield the unhashable type " + typeStr(t)
			}
		}
	}
	return ""
}

// R-KEYKINDS (C09): the key kinds the map constructors accept (the TypeID gate in front of every store to
// MapSchema.KeysValue) must all be describable: each must be a member of the meta-schema's map-key one-of (the "keys"
// row of the Map object). A kind the constructors accept but the meta-schema does not list makes SelfSerialize fail for
// a perfectly constructible map schema.
func (c *Ctx) ruleKeyKinds(rule string) {
	allowed, _, ok := c.mapKeyGate()
	if !ok {
		// mapKeyGate fails when the meta row allows MORE than the constructors; that direction is R-HASHKEY's. Recompute
		// the constructor side alone.
		allowed = c.constructorKeyKinds()
	}
	if len(allowed) == 0 {
		c.R.Unresolved(rule, "TypeID gate in front of the stores to MapSchema.KeysValue")
		return
	}
	var table map[string]string
	for _, mo := range c.metaObjects(rule) {
		if !strings.Contains(typeStr(mo.typ), "MapSchema[") {
			continue
		}
		pc, isCall := c.resolveInit(mo.props["keys"], 0).(*ssa.Call)
		if !isCall || calleeOriginName(pc) != "NewPropertySchema" {
			continue
		}
		if t, ok := c.oneOfTable(pc.Call.Args[0]); ok {
			table = t
		}
	}
	if table == nil {
		c.R.Unresolved(rule, "the \"keys\" row of the Map meta object")
		return
	}
	for _, kind := range sortedKeys(allowed) {
		k := key(rule, "meta object Map", "key kind \""+kind+"\" accepted by the constructors is describable")
		if _, ok := table[kind]; ok {
			c.R.Ok(rule, k, "-", "map key kind", "listed in the meta-schema's map-key one-of")
		} else {
			c.R.Bad(rule, k, "-", "the map constructors accept key kind \""+kind+"\" but the meta-schema's map-key one-of does not list it",
				"a map schema with such keys describes itself (SelfSerialize) in a form the meta-schema rejects ('Invalid type for one-of schema'), so it cannot be carried in the ATP hello message")
		}
	}
}

// constructorKeyKinds: the TypeID constants compared in front of the stores to MapSchema.KeysValue.
func (c *Ctx) constructorKeyKinds() map[string]bool {
	allowed := map[string]bool{}
	for _, fn := range c.M.SortedFuncs(c.scopeAll()) {
		stores := false
		for _, b := range fn.Blocks {
			for _, in := range b.Instrs {
				if st, ok := in.(*ssa.Store); ok {
					if fa, ok := st.Addr.(*ssa.FieldAddr); ok {
						stT, _ := derefType(fa.X.Type()).Underlying().(*types.Struct)
						if stT != nil && stT.Field(fa.Field).Name() == "KeysValue" && strings.Contains(typeStr(derefType(fa.X.Type())), "MapSchema") {
							stores = true
						}
					}
				}
			}
		}
		if !stores {
			continue
		}
		for _, b := range fn.Blocks {
			for _, in := range b.Instrs {
				bo, ok := in.(*ssa.BinOp)
				if !ok || bo.Op != token.EQL {
					continue
				}
				for _, side := range []ssa.Value{bo.X, bo.Y} {
					if call, ok := side.(*ssa.Call); ok && call.Call.IsInvoke() && call.Call.Method.Name() == "TypeID" {
						other := bo.Y
						if side == bo.Y {
							other = bo.X
						}
						if s, ok := core.ConstString(other); ok {
							allowed[s] = true
						}
					}
				}
			}
		}
	}
	return allowed
}
