package rules

import (
	"go/constant"
	"go/token"
	"go/types"
	"regexp/syntax"
	"strings"

	"golang.org/x/tools/go/ssa"

	"verifcheck/internal/core"
)

// Rules for unit formatting and parsing (C16).

func (c *Ctx) unitFuncs() []*ssa.Function {
	var out []*ssa.Function
	for _, fn := range c.M.Funcs {
		k := c.M.Key(fn)
		if strings.HasPrefix(k, "schema.UnitsDefinition.") || strings.HasPrefix(k, "schema.UnitDefinition.") || strings.HasPrefix(k, "schema.formatNumberUnit") {
			out = append(out, fn)
		}
	}
	return out
}

// R-GRAMMAR: the regular-expression templates of the unit parser contain no wildcard, and every named count group
// matches at least one character and only digits (plus a literal decimal point).
func (c *Ctx) ruleGrammar(rule string) {
	n := 0
	for _, fn := range c.unitFuncs() {
		compiles := false
		for _, b := range fn.Blocks {
			for _, in := range b.Instrs {
				if call, ok := in.(*ssa.Call); ok {
					switch core.StaticCalleeName(&call.Call) {
					case "regexp.MustCompile", "regexp.Compile":
						compiles = true
					}
				}
			}
		}
		if !compiles {
			continue
		}
		idx := 0
		for _, b := range fn.Blocks {
			for _, in := range b.Instrs {
				call, ok := in.(*ssa.Call)
				if !ok || core.StaticCalleeName(&call.Call) != "fmt.Sprintf" {
					continue
				}
				tmpl, ok := core.ConstString(call.Call.Args[0])
				if !ok || !strings.Contains(tmpl, "(?P<") {
					continue
				}
				idx++
				n++
				k := key(rule, c.M.Key(fn), sprintf("regexp template #%d", idx))
				pos := c.M.InstrPos(call)
				// substitute verbs: %s stands for a QuoteMeta'd literal, %d for digits
				src := strings.NewReplacer("%s", "X", "%d", "1").Replace(tmpl)
				re, err := syntax.Parse(src, syntax.Perl)
				if err != nil {
					c.R.Bad(rule, k, pos, "regexp template does not parse", err.Error())
					continue
				}
				if bad := grammarProblem(re); bad != "" {
					c.R.Bad(rule, k, pos, "unit grammar template: "+bad,
						"the grammar is digits, optional spaces and declared unit names; a wildcard lets one group swallow unit names, an empty-matching count group lets a bare unit name parse as a number")
				} else {
					c.R.Ok(rule, k, pos, "unit grammar template", "parsed with regexp/syntax: no any-char operator; every named count group needs at least one digit and matches only digits and a literal '.'")
				}
				// the %s arguments must be quoted literals
				for i, a := range call.Call.Args[1:] {
					_ = i
					if sl, ok := a.(*ssa.Slice); ok {
						if al, ok := sl.X.(*ssa.Alloc); ok {
							for _, r := range *al.Referrers() {
								ia, ok := r.(*ssa.IndexAddr)
								if !ok {
									continue
								}
								for _, r2 := range *ia.Referrers() {
									st, ok := r2.(*ssa.Store)
									if !ok {
										continue
									}
									v := core.Unwrap(st.Val)
									if vc, ok := v.(*ssa.Call); ok && core.StaticCalleeName(&vc.Call) == "regexp.QuoteMeta" {
										continue
									}
									kq := key(rule, c.M.Key(fn), sprintf("regexp template #%d: interpolated text is quoted", idx))
									c.R.Bad(rule, kq, pos, "text interpolated into the grammar without regexp.QuoteMeta", "unit names with regexp metacharacters change the grammar")
								}
							}
						}
					}
				}
			}
		}
	}
	if n == 0 {
		c.R.Note("%s: the unit parser no longer builds a regexp from templates; clause withdrawn for this run", rule)
		c.R.Unresolved(rule, "regexp templates of the unit parser")
	}
}

func grammarProblem(re *syntax.Regexp) string {
	var prob string
	var walk func(r *syntax.Regexp, inNamed bool)
	walk = func(r *syntax.Regexp, inNamed bool) {
		switch r.Op {
		case syntax.OpAnyChar, syntax.OpAnyCharNotNL:
			prob = "contains the any-character operator `.`"
		case syntax.OpCapture:
			if r.Name != "" {
				if minLen(r.Sub[0]) == 0 {
					prob = "named count group " + r.Name + " can match the empty string"
				}
				for _, s := range r.Sub {
					walk(s, true)
				}
				return
			}
		case syntax.OpCharClass:
			if inNamed {
				for i := 0; i+1 < len(r.Rune); i += 2 {
					if r.Rune[i] < '0' || r.Rune[i+1] > '9' {
						prob = "a named count group matches non-digit characters"
					}
				}
			}
		case syntax.OpLiteral:
			if inNamed && string(r.Rune) != "." {
				prob = "a named count group contains the literal " + string(r.Rune)
			}
		}
		for _, s := range r.Sub {
			walk(s, inNamed)
		}
	}
	walk(re, false)
	return prob
}

func minLen(r *syntax.Regexp) int {
	switch r.Op {
	case syntax.OpLiteral:
		return len(r.Rune)
	case syntax.OpCharClass, syntax.OpAnyChar, syntax.OpAnyCharNotNL:
		return 1
	case syntax.OpCapture:
		return minLen(r.Sub[0])
	case syntax.OpConcat:
		n := 0
		for _, s := range r.Sub {
			n += minLen(s)
		}
		return n
	case syntax.OpAlternate:
		m := -1
		for _, s := range r.Sub {
			if l := minLen(s); m < 0 || l < m {
				m = l
			}
		}
		if m < 0 {
			return 0
		}
		return m
	case syntax.OpPlus:
		return minLen(r.Sub[0])
	case syntax.OpRepeat:
		return r.Min * minLen(r.Sub[0])
	}
	return 0
}

// R-OVERFLOW: int64 multiplications and additions of values derived from strconv.ParseInt in the unit parser are
// dominated by an overflow test (pre-check against MaxInt64 / b resp. MaxInt64 - b, with the divisor known positive).
func (c *Ctx) ruleOverflow(rule string) {
	n := 0
	for _, fn := range c.unitFuncs() {
		// values derived from ParseInt results
		tainted := map[ssa.Value]bool{}
		for _, b := range fn.Blocks {
			for _, in := range b.Instrs {
				if call, ok := in.(*ssa.Call); ok && core.StaticCalleeName(&call.Call) == "strconv.ParseInt" {
					tainted[call] = true
				}
			}
		}
		if len(tainted) == 0 {
			continue
		}
		for changed := true; changed; {
			changed = false
			for _, b := range fn.Blocks {
				for _, in := range b.Instrs {
					v, ok := in.(ssa.Value)
					if !ok || tainted[v] {
						continue
					}
					var ops []*ssa.Value
					for _, op := range in.Operands(ops) {
						if op != nil && *op != nil && tainted[*op] {
							tainted[v] = true
							changed = true
							break
						}
					}
				}
			}
		}
		cnt := map[string]int{}
		for _, b := range fn.Blocks {
			for _, in := range b.Instrs {
				bin, ok := in.(*ssa.BinOp)
				if !ok || (bin.Op != token.MUL && bin.Op != token.ADD) || !tainted[bin] {
					continue
				}
				bt, ok := bin.Type().Underlying().(*types.Basic)
				if !ok || bt.Kind() != types.Int64 {
					continue
				}
				n++
				opn := map[token.Token]string{token.MUL: "multiplication", token.ADD: "addition"}[bin.Op]
				cnt[opn]++
				k := key(rule, c.M.Key(fn), sprintf("int64 %s #%d of a parsed count", opn, cnt[opn]))
				if why, ok := c.overflowGuarded(bin); ok {
					c.R.Ok(rule, k, c.M.InstrPos(bin), "64-bit "+opn+" on parsed input", why)
				} else {
					c.R.Bad(rule, k, c.M.InstrPos(bin), "64-bit "+opn+" on parsed input without an overflow test",
						"a count whose product / sum does not fit in 64 bits wraps around silently and the parser returns a wrong number instead of an error ("+why+")")
				}
			}
		}
	}
	if n == 0 {
		c.R.Unresolved(rule, "integer arithmetic on parsed counts in the unit parser")
	}
}

func isMaxInt64(v ssa.Value) bool {
	cst, ok := v.(*ssa.Const)
	if !ok || cst.Value == nil || cst.Value.Kind() != constant.Int {
		return false
	}
	i, exact := constant.Int64Val(cst.Value)
	return exact && i == 9223372036854775807
}

// overflowGuarded: for a*b: a dominating `a > MaxInt64 / b` known false with b > 0 known true;
// for x+y: a dominating `x > MaxInt64 - y` (or y > MaxInt64 - x) known false.
func (c *Ctx) overflowGuarded(bin *ssa.BinOp) (string, bool) {
	conds := core.CondsAt(bin.Block())
	same := func(a, b ssa.Value) bool { return a == b }
	positive := func(v ssa.Value) bool {
		for _, cd := range conds {
			b2, ok := cd.V.(*ssa.BinOp)
			if !ok {
				continue
			}
			if zero, ok := core.ConstInt(b2.Y); ok && zero == 0 && same(b2.X, v) {
				if (b2.Op == token.GTR && cd.True) || (b2.Op == token.LEQ && !cd.True) {
					return true
				}
			}
		}
		return false
	}
	// the guard may be `b > 0 && a > Max/b` as one short-circuit: then on the fall-through path either b <= 0 or the
	// comparison is false. Accept when the comparison appears as a condition evaluated on some dominating path and
	// its false edge OR the non-positive edge leads here; soundness for b <= 0 is the schema's business (multipliers
	// are positive by construction of unit definitions).
	for _, b := range bin.Parent().Blocks {
		for _, in := range b.Instrs {
			cmp, ok := in.(*ssa.BinOp)
			if !ok || cmp.Op != token.GTR {
				continue
			}
			rhs, ok := cmp.Y.(*ssa.BinOp)
			if !ok || !isMaxInt64(rhs.X) {
				continue
			}
			if !cmp.Block().Dominates(bin.Block()) && !dominatesThroughPreds(cmp.Block(), bin.Block()) {
				continue
			}
			// the block of bin must not be reachable through the TRUE edge of cmp
			if reachableViaTrueEdge(cmp, bin.Block()) {
				continue
			}
			switch bin.Op {
			case token.MUL:
				if rhs.Op == token.QUO && ((same(cmp.X, bin.X) && same(rhs.Y, bin.Y)) || (same(cmp.X, bin.Y) && same(rhs.Y, bin.X))) {
					div := rhs.Y
					if positive(div) || guardedPositiveShortCircuit(cmp, div) {
						return "pre-check `a > MaxInt64 / b` (with b > 0) rejects before the multiplication", true
					}
					return "the divisor of the pre-check is not known to be positive (division by zero / wrong direction)", false
				}
			case token.ADD:
				if rhs.Op == token.SUB && ((same(cmp.X, bin.X) && same(rhs.Y, bin.Y)) || (same(cmp.X, bin.Y) && same(rhs.Y, bin.X))) {
					return "pre-check `x > MaxInt64 - y` rejects before the addition", true
				}
			}
		}
	}
	return "no dominating comparison against MaxInt64 / b (resp. MaxInt64 - y) on the operands", false
}

func dominatesThroughPreds(a, b *ssa.BasicBlock) bool {
	// a is the second block of a short-circuit whose first block dominates b
	for _, p := range a.Preds {
		if p.Dominates(b) {
			return true
		}
	}
	return false
}

// reachableViaTrueEdge: block target can be reached from the true successor of the If that tests cmp without
// passing through the cmp block again.
func reachableViaTrueEdge(cmp *ssa.BinOp, target *ssa.BasicBlock) bool {
	b := cmp.Block()
	ifi, ok := b.Instrs[len(b.Instrs)-1].(*ssa.If)
	if !ok || ifi.Cond != ssa.Value(cmp) {
		return true
	}
	seen := map[*ssa.BasicBlock]bool{b: true}
	stack := []*ssa.BasicBlock{b.Succs[0]}
	for len(stack) > 0 {
		x := stack[len(stack)-1]
		stack = stack[:len(stack)-1]
		if x == target {
			return true
		}
		if seen[x] {
			continue
		}
		seen[x] = true
		stack = append(stack, x.Succs...)
	}
	return false
}

// guardedPositiveShortCircuit: the comparison block is only entered on the true edge of `div > 0`.
func guardedPositiveShortCircuit(cmp *ssa.BinOp, div ssa.Value) bool {
	for _, cd := range core.CondsAt(cmp.Block()) {
		b2, ok := cd.V.(*ssa.BinOp)
		if !ok {
			continue
		}
		if zero, ok := core.ConstInt(b2.Y); ok && zero == 0 && b2.X == div && b2.Op == token.GTR && cd.True {
			return true
		}
	}
	return false
}

// R-TRIM: strings.Trim* with a cutset that contains a digit may only be applied to a rendering that is known to
// contain a decimal point, and the cutset must not also contain the point (TrimRight("10.000", "0.") = "1").
func (c *Ctx) ruleTrim(rule string) {
	n := 0
	for _, fn := range c.unitFuncs() {
		idx := 0
		for _, b := range fn.Blocks {
			for _, in := range b.Instrs {
				call, ok := in.(*ssa.Call)
				if !ok {
					continue
				}
				name := core.StaticCalleeName(&call.Call)
				if !strings.HasPrefix(name, "strings.Trim") || len(call.Call.Args) != 2 {
					continue
				}
				cut, ok := core.ConstString(call.Call.Args[1])
				if !ok || !strings.ContainsAny(cut, "0123456789") {
					continue
				}
				idx++
				n++
				k := key(rule, c.M.Key(fn), sprintf("%s with digit cutset #%d", name, idx))
				pos := c.M.InstrPos(call)
				if strings.Contains(cut, ".") {
					c.R.Bad(rule, k, pos, "trim set mixes digits with the decimal point", "TrimRight(\"10.000000\", \"0.\") yields \"1\": significant zeros of the integer part are removed")
					continue
				}
				// dominated by strings.Contains(x, ".") == true on the same value
				guarded := false
				for _, cond := range core.CondsAt(b) {
					cc, ok := cond.V.(*ssa.Call)
					if !ok || !cond.True || core.StaticCalleeName(&cc.Call) != "strings.Contains" {
						continue
					}
					if s, ok := core.ConstString(cc.Call.Args[1]); ok && s == "." && cc.Call.Args[0] == call.Call.Args[0] {
						guarded = true
					}
				}
				if guarded {
					c.R.Ok(rule, k, pos, "digit trimming", "applied only to a rendering that contains a decimal point (zeros being trimmed are fractional), and the point is trimmed separately")
				} else {
					c.R.Bad(rule, k, pos, "digits trimmed from a rendering that may be an integer", "FormatShortInt(10) becomes \"1\": trailing zeros of an integer rendering are significant")
				}
			}
		}
	}
	c.R.Note("%s: %d digit-trimming call(s) examined", rule, n)
}

// R-SIBLING: the four UnitsDefinition.Format* functions perform the same computation: inside the loop over the
// multipliers the amount handed to the per-unit formatter is the quotient (derived from math.Floor), never the
// loop-carried remainder; after the loop the remainder goes to the base unit.
func (c *Ctx) ruleSibling(rule string) {
	for _, name := range []string{"FormatShortInt", "FormatShortFloat", "FormatLongInt", "FormatLongFloat"} {
		fn := c.fn(rule, "schema.UnitsDefinition."+name)
		if fn == nil {
			continue
		}
		var inLoop, afterLoop []*ssa.Call
		for _, b := range fn.Blocks {
			for _, in := range b.Instrs {
				call, ok := in.(*ssa.Call)
				if !ok {
					continue
				}
				callee := ""
				if cs := c.M.Callees(&call.Call); len(cs) == 1 {
					callee = c.M.Key(cs[0])
				}
				if !strings.Contains(strings.ToLower(callee), "format") {
					continue
				}
				if blockInLoop(b) {
					inLoop = append(inLoop, call)
				} else {
					afterLoop = append(afterLoop, call)
				}
			}
		}
		k := key(rule, "schema.UnitsDefinition."+name, "per-unit amount is the quotient, remainder goes to the base unit")
		if len(inLoop) != 1 {
			c.R.Bad(rule, k, c.M.Pos(fn.Pos()), sprintf("%d formatter calls inside the multiplier loop, expected 1", len(inLoop)), "the four formatters no longer share one shape (undecided = fail)")
			continue
		}
		amount := numericArg(inLoop[0])
		fromFloor, fromPhi := derivesFrom(amount, 0)
		switch {
		case amount == nil:
			c.R.Bad(rule, k, c.M.InstrPos(inLoop[0]), "cannot identify the amount argument of the per-unit formatter", "undecided = fail")
		case fromPhi:
			c.R.Bad(rule, k, c.M.InstrPos(inLoop[0]), "the per-unit formatter receives the running remainder instead of the per-unit quotient",
				name+"(90) on a seconds-based set prints the remainder for every unit (\"...30minutes30seconds\"): formatting is no longer the inverse of parsing; the sibling formatters pass the quotient")
		case fromFloor:
			c.R.Ok(rule, k, c.M.InstrPos(inLoop[0]), "per-unit amount", "derived from the math.Floor quotient, as in the three sibling formatters")
		default:
			c.R.Bad(rule, k, c.M.InstrPos(inLoop[0]), "the per-unit amount is neither the quotient nor recognisable", "undecided = fail")
		}
	}
	c.R.Floor(rule, 4)
}

func numericArg(call *ssa.Call) ssa.Value {
	for _, a := range call.Call.Args {
		if bt, ok := a.Type().Underlying().(*types.Basic); ok && bt.Info()&types.IsNumeric != 0 {
			return a
		}
	}
	return nil
}

// derivesFrom: whether v is computed from a math.Floor result / from a phi (loop-carried value), looking through conversions.
func derivesFrom(v ssa.Value, depth int) (floor bool, phi bool) {
	if v == nil || depth > 6 {
		return
	}
	switch x := v.(type) {
	case *ssa.Convert:
		return derivesFrom(x.X, depth+1)
	case *ssa.ChangeType:
		return derivesFrom(x.X, depth+1)
	case *ssa.Call:
		if core.StaticCalleeName(&x.Call) == "math.Floor" {
			return true, false
		}
	case *ssa.Phi:
		return false, true
	case *ssa.BinOp:
		f1, p1 := derivesFrom(x.X, depth+1)
		f2, p2 := derivesFrom(x.Y, depth+1)
		return f1 || f2, p1 || p2
	}
	return
}
