package rules

import (
	"go/constant"
	"go/token"
	"go/types"
	"regexp"
	"regexp/syntax"
	"strconv"
	"strings"

	"golang.org/x/tools/go/ssa"

	"verifcheck/internal/core"
)

// Rules for unit formatting and parsing (C16).

func (c *Ctx) unitFuncs() []*ssa.Function {
	var out []*ssa.Function
	for _, fn := range c.M.Funcs {
		// every function declared in the units file (methods, helpers and generic renderers, whatever they are called)
		if strings.HasSuffix(strings.SplitN(c.M.Pos(fn.Pos()), ":", 2)[0], "schema/units.go") {
			out = append(out, fn)
		}
	}
	return out
}

var foldFlagRe = regexp.MustCompile(`\(\?[a-zA-Z]*i[a-zA-Z]*(-[a-zA-Z]*)?[:)]`)

// R-GRAMMAR: the regular-expression templates of the unit parser contain no wildcard, and every named count group
// matches at least one character and only digits (plus a literal decimal point).
func (c *Ctx) ruleGrammar(rule string) {
	n := 0
	for _, fn := range c.unitFuncs() {
		compiles := false
		for _, b := range fn.Blocks {
			for _, in := range b.Instrs {
				if call, ok := in.(*ssa.Call); ok {
					switch core.StaticCalleeName(&call.Call) {
					case "regexp.MustCompile", "regexp.Compile":
						compiles = true
					}
				}
			}
		}
		if !compiles {
			continue
		}
		// the grammar is case-sensitive: unit names are data (a plugin's definition may declare mW and MW, b and B), and
		// with case folding the name of one unit matches another unit's group - which of them gets the count is then
		// decided by the order of the groups, not by the name
		{
			kf := key(rule, c.M.Key(fn), "the grammar is compiled without the case-folding flag")
			folded := ""
			for _, b := range fn.Blocks {
				for _, in := range b.Instrs {
					var ops []*ssa.Value
					for _, op := range in.Operands(ops) {
						if op == nil || *op == nil {
							continue
						}
						if str, ok := core.ConstString(*op); ok && foldFlagRe.MatchString(str) {
							folded = c.M.InstrPos(in)
						}
					}
				}
			}
			n++
			if folded == "" {
				c.R.Ok(rule, kf, c.M.Pos(fn.Pos()), "flags of the unit grammar", "no constant text of the function that compiles the grammar sets the flag i")
			} else {
				c.R.Bad(rule, kf, folded, "the unit grammar is matched without regard to case",
					"a definition whose unit names differ only in case (mW / MW, b / B) is parsed by the order of the groups instead of by the names: '5MW' is read as 5 of the base unit mW - a wrong number instead of the sum of count x multiplier")
			}
		}
		idx := 0
		for _, use := range c.grammarTemplates(fn) {
			call, tmpl := use.call, use.tmpl
			{
				{
					idx++
					n++
					k := key(rule, c.M.Key(fn), sprintf("regexp template #%d", idx))
					pos := c.M.InstrPos(call)
					// substitute verbs: %s stands for a QuoteMeta'd literal, %d for digits (a verb that is filled from a
					// parameter of a helper has been replaced by what the call site hands in)
					src := strings.NewReplacer("%s", "X", "%d", "1").Replace(tmpl)
					re, err := syntax.Parse(src, syntax.Perl)
					if err != nil {
						c.R.Bad(rule, k, pos, "regexp template does not parse", err.Error())
						continue
					}
					if bad := grammarProblem(re); bad != "" {
						c.R.Bad(rule, k, pos, "unit grammar template: "+bad,
							"the grammar is digits, optional spaces and declared unit names; a wildcard lets one group swallow unit names, an empty-matching count group lets a bare unit name parse as a number")
					} else {
						c.R.Ok(rule, k, pos, "unit grammar template", "parsed with regexp/syntax: no any-char operator; every named count group needs at least one digit and matches only digits and a literal '.'")
					}
					// only one unit of a grammar - the base unit - may be written without its name: a template whose name group can
					// match the empty string is instantiated once, not in the loop over the multipliers (a count without a name
					// would otherwise be taken for whichever unit's group comes first)
					kn := key(rule, c.M.Key(fn), sprintf("regexp template #%d: the unit name can be left out for one unit at most", idx))
					if !optionalName(re) {
						c.R.Ok(rule, kn, pos, "unit grammar template", "the group of unit names cannot match the empty string")
					} else if !use.inLoop {
						c.R.Ok(rule, kn, pos, "unit grammar template", "the group of unit names can match the empty string, and the template is instantiated once (outside every loop): the base unit")
					} else {
						c.R.Bad(rule, kn, pos, "every unit of the grammar can be written without its name",
							"the template whose name group can match the empty string is instantiated in a loop: a count without a unit name, which only the base unit may have, is matched by the first group that comes - '1 30s' parses as a number instead of being rejected")
					}
					// the %s arguments must be quoted literals
					if use.site != nil {
						continue
					}
					for i, a := range call.Call.Args[1:] {
						_ = i
						if sl, ok := a.(*ssa.Slice); ok {
							if al, ok := sl.X.(*ssa.Alloc); ok {
								for _, r := range *al.Referrers() {
									ia, ok := r.(*ssa.IndexAddr)
									if !ok {
										continue
									}
									for _, r2 := range *ia.Referrers() {
										st, ok := r2.(*ssa.Store)
										if !ok {
											continue
										}
										v := core.Unwrap(st.Val)
										if vc, ok := v.(*ssa.Call); ok && core.StaticCalleeName(&vc.Call) == "regexp.QuoteMeta" {
											continue
										}
										if c.quotedText(v, 0) {
											continue
										}
										kq := key(rule, c.M.Key(fn), sprintf("regexp template #%d: interpolated text is quoted", idx))
										c.R.Bad(rule, kq, pos, "text interpolated into the grammar without regexp.QuoteMeta", "unit names with regexp metacharacters change the grammar")
									}
								}
							}
						}
					}
				}
			}
		}
	}
	c.groupNameClause(rule)
	c.blankInputClause(rule)
	if n == 0 {
		c.R.Note("%s: the unit parser no longer builds a regexp from templates; clause withdrawn for this run", rule)
		c.R.Unresolved(rule, "regexp templates of the unit parser")
	}
}

// blankInputClause: when every template of the grammar can match the empty string (all unit groups are optional), the
// assembled grammar matches a blank input with all groups empty, which the accumulation turns into 0 - a number for a
// string that denotes none. The match must then be preceded, on every path, by a test that a whitespace-trimmed copy
// of the input is not empty.
func (c *Ctx) blankInputClause(rule string) {
	for _, fn := range c.unitFuncs() {
		var match *ssa.Call
		for _, b := range fn.Blocks {
			for _, in := range b.Instrs {
				if call, ok := in.(*ssa.Call); ok && strings.HasPrefix(core.StaticCalleeName(&call.Call), "(*regexp.Regexp).Find") {
					match = call
				}
			}
		}
		if match == nil {
			continue
		}
		// can the grammar match without a digit? all templates of the compiling function(s) optional
		allOptional, seen := true, 0
		for _, g := range c.unitFuncs() {
			for _, b := range g.Blocks {
				for _, in := range b.Instrs {
					call, ok := in.(*ssa.Call)
					if !ok || core.StaticCalleeName(&call.Call) != "fmt.Sprintf" {
						continue
					}
					tmpl, ok := core.ConstString(call.Call.Args[0])
					if !ok || !strings.Contains(tmpl, "(?P<") {
						continue
					}
					seen++
					re, err := syntax.Parse(strings.NewReplacer("%s", "X", "%d", "1").Replace(tmpl), syntax.Perl)
					if err != nil || minLen(re) > 0 {
						allOptional = false
					}
				}
			}
		}
		k := key(rule, c.M.Key(fn), "a blank input is rejected before the grammar is applied")
		if seen == 0 || !allOptional {
			c.R.Ok(rule, k, c.M.InstrPos(match), "match of the unit grammar", "the grammar needs at least one count")
			continue
		}
		est := func(cond core.Cond) bool {
			bo, ok := cond.V.(*ssa.BinOp)
			if !ok || (bo.Op != token.EQL && bo.Op != token.NEQ) {
				return false
			}
			var other ssa.Value
			if s, isC := core.ConstString(bo.Y); isC && s == "" {
				other = bo.X
			} else if s, isC := core.ConstString(bo.X); isC && s == "" {
				other = bo.Y
			} else {
				return false
			}
			tc, ok := other.(*ssa.Call)
			if !ok || core.StaticCalleeName(&tc.Call) != "strings.TrimSpace" {
				return false
			}
			return (bo.Op == token.NEQ) == cond.True
		}
		if core.MustHold(fn, est)[match.Block()] {
			c.R.Ok(rule, k, c.M.InstrPos(match), "match of the unit grammar", "every template is optional, and on every path a whitespace-trimmed copy of the input was found non-empty first")
		} else {
			c.R.Bad(rule, k, c.M.InstrPos(match), "a blank string reaches a grammar all of whose groups are optional",
				"\" \" (or a tab, a newline) matches with every group empty and is accumulated to 0: a unit-bearing integer, float or enum schema accepts a string that denotes no number")
		}
	}
}

var namedGroupRe = regexp.MustCompile(`\(\?P<([^>]*)>`)

// groupNameClause: a count group whose name is generated from the multiplier ("g%s" <- "%d" of the multiplier) must not
// be able to take the name of a fixed group of the same grammar ("g1", the base unit): Go's regexp accepts duplicate
// names, the name -> index table keeps the last one, and the base unit's count is then read from the wrong group or
// counted twice (multiplier 1: "5x" parses as 10). Discharge: on every path to the template a branch condition
// excludes each colliding multiplier value (m >= N+1, or m != N).
func (c *Ctx) groupNameClause(rule string) {
	for _, fn := range c.unitFuncs() {
		type tmplSite struct {
			call *ssa.Call
			name string
		}
		var dynamic []tmplSite
		var fixed []string
		for _, b := range fn.Blocks {
			for _, in := range b.Instrs {
				call, ok := in.(*ssa.Call)
				if !ok || core.StaticCalleeName(&call.Call) != "fmt.Sprintf" {
					continue
				}
				tmpl, ok := core.ConstString(call.Call.Args[0])
				if !ok {
					continue
				}
				for _, m := range namedGroupRe.FindAllStringSubmatch(tmpl, -1) {
					if strings.Contains(m[1], "%") {
						dynamic = append(dynamic, tmplSite{call, m[1]})
					} else {
						fixed = append(fixed, m[1])
					}
				}
			}
		}
		for i, d := range dynamic {
			k := key(rule, c.M.Key(fn), sprintf("generated group name %q #%d cannot take the name of a fixed group", d.name, i+1))
			pos := c.M.InstrPos(d.call)
			// which multiplier values make the generated name equal to a fixed one
			pat, err := regexp.Compile("^" + strings.NewReplacer("%s", "(-?[0-9]+)", "%d", "(-?[0-9]+)").Replace(regexp.QuoteMeta(d.name)) + "$")
			if err != nil {
				c.R.Bad(rule, k, pos, "cannot read the generated group name", "undecided = fail")
				continue
			}
			var collide []int64
			for _, f := range fixed {
				if m := pat.FindStringSubmatch(f); m != nil {
					if v, err := strconv.ParseInt(m[1], 10, 64); err == nil {
						collide = append(collide, v)
					}
				}
			}
			if len(collide) == 0 {
				c.R.Ok(rule, k, pos, "generated count-group name", "no fixed group of the grammar has a name of the generated form")
				continue
			}
			// the multiplier: the int64 element of the ranged-over slice in the loop that contains the template
			var mult ssa.Value
			for _, b := range fn.Blocks {
				for _, in := range b.Instrs {
					if ld, ok := in.(*ssa.UnOp); ok && ld.Op == token.MUL && isIntegerType(ld.Type()) {
						if _, ok := ld.X.(*ssa.IndexAddr); ok && blockInLoop(b) {
							mult = ld
						}
					}
				}
			}
			if mult == nil {
				c.R.Bad(rule, k, pos, "cannot identify the multiplier the group name is generated from", "undecided = fail")
				continue
			}
			missing := ""
			for _, n := range collide {
				excl := func(cond core.Cond) bool {
					if atLeastFact(mult, n+1)(cond) {
						return true
					}
					op, kk, ok := normCond(cond, mult)
					return ok && op == token.NEQ && kk == n
				}
				if !core.MustHold(fn, excl)[d.call.Block()] {
					missing = sprintf("%d", n)
				}
			}
			if missing == "" {
				c.R.Ok(rule, k, pos, "generated count-group name", sprintf("on every path to the template a branch condition excludes the multiplier value(s) %v whose group would shadow a fixed group", collide))
			} else {
				c.R.Bad(rule, k, pos, "a multiplier of "+missing+" generates a count group with the name of the base unit's group",
					"regexp accepts the duplicate name, the name table keeps one index: with multiplier "+missing+" \"5x\" is counted twice (ParseInt returns 10) instead of being rejected")
			}
		}
	}
}

// grammarUse is one instantiation of a template of the unit grammar: the Sprintf call, the template with the verbs
// that a helper's call site fills replaced by what the site hands in, and whether the instantiation happens in a loop.
type grammarUse struct {
	call   *ssa.Call
	site   *ssa.Call // the call of the helper that holds the Sprintf (nil: the Sprintf is in the compiling function)
	tmpl   string
	inLoop bool
}

// grammarTemplates: the templates that make up the grammar compiled by fn - the Sprintf calls of fn itself, and those of
// the helpers of the units file that fn calls (one use per call site).
func (c *Ctx) grammarTemplates(fn *ssa.Function) []grammarUse {
	sprintfs := func(f *ssa.Function) []*ssa.Call {
		var out []*ssa.Call
		for _, b := range f.Blocks {
			for _, in := range b.Instrs {
				if call, ok := in.(*ssa.Call); ok && core.StaticCalleeName(&call.Call) == "fmt.Sprintf" {
					if tmpl, ok := core.ConstString(call.Call.Args[0]); ok && strings.Contains(tmpl, "(?P<") {
						out = append(out, call)
					}
				}
			}
		}
		return out
	}
	var out []grammarUse
	for _, call := range sprintfs(fn) {
		tmpl, _ := core.ConstString(call.Call.Args[0])
		out = append(out, grammarUse{call: call, tmpl: tmpl, inLoop: blockInLoop(call.Block())})
	}
	inFile := map[*ssa.Function]bool{}
	for _, f := range c.unitFuncs() {
		inFile[f] = true
	}
	for _, b := range fn.Blocks {
		for _, in := range b.Instrs {
			site, ok := in.(*ssa.Call)
			if !ok {
				continue
			}
			h := core.StaticBody(&site.Call)
			if h == nil || h == fn || !inFile[h] {
				continue
			}
			for _, call := range sprintfs(h) {
				tmpl, _ := core.ConstString(call.Call.Args[0])
				// the values of the verbs, in order
				var vals []ssa.Value
				if len(call.Call.Args) > 1 {
					if sl, ok := call.Call.Args[1].(*ssa.Slice); ok {
						if al, ok := sl.X.(*ssa.Alloc); ok && al.Referrers() != nil {
							byIdx := map[int64]ssa.Value{}
							for _, r := range *al.Referrers() {
								ia, ok := r.(*ssa.IndexAddr)
								if !ok || ia.Referrers() == nil {
									continue
								}
								i, isConst := core.ConstInt(ia.Index)
								if !isConst {
									continue
								}
								for _, r2 := range *ia.Referrers() {
									if st, ok := r2.(*ssa.Store); ok {
										byIdx[i] = core.Unwrap(st.Val)
									}
								}
							}
							for i := int64(0); i < int64(len(byIdx)); i++ {
								vals = append(vals, byIdx[i])
							}
						}
					}
				}
				// replace, verb by verb, those that are filled from a parameter with the constant the site hands in
				var sb strings.Builder
				vi := 0
				for i := 0; i < len(tmpl); i++ {
					if tmpl[i] == '%' && i+1 < len(tmpl) && (tmpl[i+1] == 's' || tmpl[i+1] == 'd') {
						repl := tmpl[i : i+2]
						if vi < len(vals) {
							v := vals[vi]
							if mi, ok := v.(*ssa.MakeInterface); ok {
								v = mi.X
							}
							if prm, ok := v.(*ssa.Parameter); ok {
								for pi, q := range h.Params {
									if q == prm && pi < len(site.Call.Args) {
										if str, ok := core.ConstString(site.Call.Args[pi]); ok && tmpl[i+1] == 's' {
											repl = str
										}
									}
								}
							}
						}
						vi++
						sb.WriteString(repl)
						i++
						continue
					}
					sb.WriteByte(tmpl[i])
				}
				out = append(out, grammarUse{call: call, site: site, tmpl: sb.String(), inLoop: blockInLoop(site.Block()) || blockInLoop(call.Block())})
			}
		}
	}
	return out
}

// optionalName: outside the named count group, a capture group can match the empty string (the unit name can be left
// out).
func optionalName(re *syntax.Regexp) bool {
	found := false
	var walk func(r *syntax.Regexp)
	walk = func(r *syntax.Regexp) {
		if r.Op == syntax.OpCapture {
			if r.Name != "" {
				return
			}
			if minLen(r.Sub[0]) == 0 {
				found = true
			}
		}
		for _, s := range r.Sub {
			walk(s)
		}
	}
	walk(re)
	return found
}

func grammarProblem(re *syntax.Regexp) string {
	var prob string
	var walk func(r *syntax.Regexp, inNamed bool)
	walk = func(r *syntax.Regexp, inNamed bool) {
		switch r.Op {
		case syntax.OpAnyChar, syntax.OpAnyCharNotNL:
			prob = "contains the any-character operator `.`"
		case syntax.OpCapture:
			if r.Name != "" {
				if minLen(r.Sub[0]) == 0 {
					prob = "named count group " + r.Name + " can match the empty string"
				}
				for _, s := range r.Sub {
					walk(s, true)
				}
				return
			}
		case syntax.OpCharClass:
			if inNamed {
				for i := 0; i+1 < len(r.Rune); i += 2 {
					if r.Rune[i] < '0' || r.Rune[i+1] > '9' {
						prob = "a named count group matches non-digit characters"
					}
				}
			}
		case syntax.OpLiteral:
			if inNamed && string(r.Rune) != "." {
				prob = "a named count group contains the literal " + string(r.Rune)
			}
		}
		for _, s := range r.Sub {
			walk(s, inNamed)
		}
	}
	walk(re, false)
	return prob
}

func minLen(r *syntax.Regexp) int {
	switch r.Op {
	case syntax.OpLiteral:
		return len(r.Rune)
	case syntax.OpCharClass, syntax.OpAnyChar, syntax.OpAnyCharNotNL:
		return 1
	case syntax.OpCapture:
		return minLen(r.Sub[0])
	case syntax.OpConcat:
		n := 0
		for _, s := range r.Sub {
			n += minLen(s)
		}
		return n
	case syntax.OpAlternate:
		m := -1
		for _, s := range r.Sub {
			if l := minLen(s); m < 0 || l < m {
				m = l
			}
		}
		if m < 0 {
			return 0
		}
		return m
	case syntax.OpPlus:
		return minLen(r.Sub[0])
	case syntax.OpRepeat:
		return r.Min * minLen(r.Sub[0])
	}
	return 0
}

// R-OVERFLOW: int64 multiplications and additions of values derived from strconv.ParseInt in the unit parser are
// dominated by an overflow test (pre-check against MaxInt64 / b resp. MaxInt64 - b, with the divisor known positive).
func (c *Ctx) ruleOverflow(rule string) {
	n := 0
	for _, fn := range c.unitFuncs() {
		// values derived from ParseInt results
		tainted := map[ssa.Value]bool{}
		for _, b := range fn.Blocks {
			for _, in := range b.Instrs {
				if call, ok := in.(*ssa.Call); ok && core.StaticCalleeName(&call.Call) == "strconv.ParseInt" {
					tainted[call] = true
				}
			}
		}
		if len(tainted) == 0 {
			continue
		}
		for changed := true; changed; {
			changed = false
			for _, b := range fn.Blocks {
				for _, in := range b.Instrs {
					v, ok := in.(ssa.Value)
					if !ok || tainted[v] {
						continue
					}
					var ops []*ssa.Value
					for _, op := range in.Operands(ops) {
						if op != nil && *op != nil && tainted[*op] {
							tainted[v] = true
							changed = true
							break
						}
					}
				}
			}
		}
		cnt := map[string]int{}
		for _, b := range fn.Blocks {
			for _, in := range b.Instrs {
				bin, ok := in.(*ssa.BinOp)
				if !ok || (bin.Op != token.MUL && bin.Op != token.ADD) || !tainted[bin] {
					continue
				}
				bt, ok := bin.Type().Underlying().(*types.Basic)
				if !ok || bt.Kind() != types.Int64 {
					continue
				}
				n++
				opn := map[token.Token]string{token.MUL: "multiplication", token.ADD: "addition"}[bin.Op]
				cnt[opn]++
				k := key(rule, c.M.Key(fn), sprintf("int64 %s #%d of a parsed count", opn, cnt[opn]))
				if why, ok := c.overflowGuarded(bin); ok {
					c.R.Ok(rule, k, c.M.InstrPos(bin), "64-bit "+opn+" on parsed input", why)
				} else {
					c.R.Bad(rule, k, c.M.InstrPos(bin), "64-bit "+opn+" on parsed input without an overflow test",
						"a count whose product / sum does not fit in 64 bits wraps around silently and the parser returns a wrong number instead of an error ("+why+")")
				}
			}
		}
	}
	if n == 0 {
		c.R.Unresolved(rule, "integer arithmetic on parsed counts in the unit parser")
	}
}

func isMaxInt64(v ssa.Value) bool {
	cst, ok := v.(*ssa.Const)
	if !ok || cst.Value == nil || cst.Value.Kind() != constant.Int {
		return false
	}
	i, exact := constant.Int64Val(cst.Value)
	return exact && i == 9223372036854775807
}

// overflowGuarded: for a*b: a dominating `a > MaxInt64 / b` known false with b > 0 known true;
// for x+y: a dominating `x > MaxInt64 - y` (or y > MaxInt64 - x) known false.
func (c *Ctx) overflowGuarded(bin *ssa.BinOp) (string, bool) {
	conds := core.CondsAt(bin.Block())
	// the same value: one SSA value, or two loads of the same variable (a field of a local struct that holds the running
	// sums) with no store to that variable on any path from the first load to the second
	same := func(a, b ssa.Value) bool {
		if a == b {
			return true
		}
		la, okA := a.(*ssa.UnOp)
		lb, okB := b.(*ssa.UnOp)
		if !okA || !okB || la.Op != token.MUL || lb.Op != token.MUL {
			return false
		}
		if !sameAddr(la.X, lb.X) {
			return false
		}
		return noStoreBetween(la, lb, la.X) && noStoreBetween(lb, la, la.X)
	}
	positive := func(v ssa.Value) bool {
		for _, cd := range conds {
			b2, ok := cd.V.(*ssa.BinOp)
			if !ok {
				continue
			}
			if zero, ok := core.ConstInt(b2.Y); ok && zero == 0 && same(b2.X, v) {
				if (b2.Op == token.GTR && cd.True) || (b2.Op == token.LEQ && !cd.True) {
					return true
				}
			}
		}
		return false
	}
	// the guard may be `b > 0 && a > Max/b` as one short-circuit: then on the fall-through path either b <= 0 or the
	// comparison is false. Accept when the comparison appears as a condition evaluated on some dominating path and
	// its false edge OR the non-positive edge leads here; soundness for b <= 0 is the schema's business (multipliers
	// are positive by construction of unit definitions).
	for _, b := range bin.Parent().Blocks {
		for _, in := range b.Instrs {
			cmp, ok := in.(*ssa.BinOp)
			if !ok || cmp.Op != token.GTR {
				continue
			}
			rhs, ok := cmp.Y.(*ssa.BinOp)
			if !ok || !isMaxInt64(rhs.X) {
				continue
			}
			if !cmp.Block().Dominates(bin.Block()) && !dominatesThroughPreds(cmp.Block(), bin.Block()) {
				continue
			}
			// the block of bin must not be reachable through the TRUE edge of cmp
			if reachableViaTrueEdge(cmp, bin.Block()) {
				continue
			}
			switch bin.Op {
			case token.MUL:
				if rhs.Op == token.QUO && ((same(cmp.X, bin.X) && same(rhs.Y, bin.Y)) || (same(cmp.X, bin.Y) && same(rhs.Y, bin.X))) {
					div := rhs.Y
					if positive(div) || guardedPositiveShortCircuit(cmp, div) {
						return "pre-check `a > MaxInt64 / b` (with b > 0) rejects before the multiplication", true
					}
					return "the divisor of the pre-check is not known to be positive (division by zero / wrong direction)", false
				}
			case token.ADD:
				if rhs.Op == token.SUB && ((same(cmp.X, bin.X) && same(rhs.Y, bin.Y)) || (same(cmp.X, bin.Y) && same(rhs.Y, bin.X))) {
					return "pre-check `x > MaxInt64 - y` rejects before the addition", true
				}
			}
		}
	}
	// the comparison kept in a named boolean (`productOverflows := b > 0 && a > MaxInt64/b; if err == nil &&
	// !productOverflows { a * b }`): on every way to the operation the comparison is known to be false - or the
	// operand the short circuit tests first known not to be positive (see above)
	est := func(cond core.Cond) bool {
		cmp, ok := cond.V.(*ssa.BinOp)
		if !ok {
			return false
		}
		if zero, isZero := core.ConstInt(cmp.Y); isZero && zero == 0 && (same(cmp.X, bin.X) || same(cmp.X, bin.Y)) {
			return (cmp.Op == token.GTR && !cond.True) || (cmp.Op == token.LEQ && cond.True)
		}
		if !((cmp.Op == token.GTR && !cond.True) || (cmp.Op == token.LEQ && cond.True)) {
			return false
		}
		rhs, ok := cmp.Y.(*ssa.BinOp)
		if !ok || !isMaxInt64(rhs.X) {
			return false
		}
		matches := (same(cmp.X, bin.X) && same(rhs.Y, bin.Y)) || (same(cmp.X, bin.Y) && same(rhs.Y, bin.X))
		switch bin.Op {
		case token.MUL:
			return rhs.Op == token.QUO && matches && guardedPositiveShortCircuit(cmp, rhs.Y)
		case token.ADD:
			return rhs.Op == token.SUB && matches
		}
		return false
	}
	if core.MustHold(bin.Parent(), est)[bin.Block()] {
		return "on every way to the operation the pre-check against MaxInt64 (kept in a variable) is known to have failed", true
	}
	return "no dominating comparison against MaxInt64 / b (resp. MaxInt64 - y) on the operands", false
}

// noStoreBetween: no store to the variable at addr lies on a path from `from` to `to`.
// sameAddr: the two addresses name the same variable: one SSA value, or the same field of the same variable.
func sameAddr(x, y ssa.Value) bool {
	if x == y {
		return true
	}
	fx, okX := x.(*ssa.FieldAddr)
	fy, okY := y.(*ssa.FieldAddr)
	return okX && okY && fx.Field == fy.Field && sameAddr(fx.X, fy.X)
}

// overlapsAddr: a store to x changes what is read at y (the same variable, or a struct that contains it).
func overlapsAddr(x, y ssa.Value) bool {
	for v := y; ; {
		if sameAddr(x, v) {
			return true
		}
		fa, ok := v.(*ssa.FieldAddr)
		if !ok {
			return false
		}
		v = fa.X
	}
}

func noStoreBetween(from, to ssa.Instruction, addr ssa.Value) bool {
	pos := func(in ssa.Instruction) int {
		for i, x := range in.Block().Instrs {
			if x == in {
				return i
			}
		}
		return -1
	}
	for _, b := range from.Parent().Blocks {
		for i, in := range b.Instrs {
			st, ok := in.(*ssa.Store)
			if !ok || !overlapsAddr(st.Addr, addr) {
				continue
			}
			// after `from` ...
			after := (b == from.Block() && i > pos(from)) || (b != from.Block() && blockReaches(from.Block(), b, nil)) ||
				(b == from.Block() && blockReaches(b, b, nil))
			// ... and before `to`
			before := (b == to.Block() && i < pos(to)) || (b != to.Block() && blockReaches(b, to.Block(), nil)) ||
				(b == to.Block() && blockReaches(b, b, nil))
			if after && before {
				return false
			}
		}
	}
	return true
}

func dominatesThroughPreds(a, b *ssa.BasicBlock) bool {
	// a is the second block of a short-circuit whose first block dominates b
	for _, p := range a.Preds {
		if p.Dominates(b) {
			return true
		}
	}
	return false
}

// reachableViaTrueEdge: block target can be reached from the true successor of the If that tests cmp without
// passing through the cmp block again.
func reachableViaTrueEdge(cmp *ssa.BinOp, target *ssa.BasicBlock) bool {
	b := cmp.Block()
	ifi, ok := b.Instrs[len(b.Instrs)-1].(*ssa.If)
	if !ok || ifi.Cond != ssa.Value(cmp) {
		return true
	}
	seen := map[*ssa.BasicBlock]bool{b: true}
	stack := []*ssa.BasicBlock{b.Succs[0]}
	for len(stack) > 0 {
		x := stack[len(stack)-1]
		stack = stack[:len(stack)-1]
		if x == target {
			return true
		}
		if seen[x] {
			continue
		}
		seen[x] = true
		stack = append(stack, x.Succs...)
	}
	return false
}

// guardedPositiveShortCircuit: the comparison block is only entered on the true edge of `div > 0`.
func guardedPositiveShortCircuit(cmp *ssa.BinOp, div ssa.Value) bool {
	for _, cd := range core.CondsAt(cmp.Block()) {
		b2, ok := cd.V.(*ssa.BinOp)
		if !ok {
			continue
		}
		if zero, ok := core.ConstInt(b2.Y); ok && zero == 0 && b2.X == div && b2.Op == token.GTR && cd.True {
			return true
		}
	}
	return false
}

// R-TRIM: strings.Trim* with a cutset that contains a digit may only be applied to a rendering that is known to
// contain a decimal point, and the cutset must not also contain the point (TrimRight("10.000", "0.") = "1").
func (c *Ctx) ruleTrim(rule string) {
	n := 0
	for _, fn := range c.unitFuncs() {
		idx := 0
		for _, b := range fn.Blocks {
			for _, in := range b.Instrs {
				call, ok := in.(*ssa.Call)
				if !ok {
					continue
				}
				name := core.StaticCalleeName(&call.Call)
				if !strings.HasPrefix(name, "strings.Trim") || len(call.Call.Args) != 2 {
					continue
				}
				cut, ok := core.ConstString(call.Call.Args[1])
				if !ok || !strings.ContainsAny(cut, "0123456789") {
					continue
				}
				idx++
				n++
				k := key(rule, c.M.Key(fn), sprintf("%s with digit cutset #%d", name, idx))
				pos := c.M.InstrPos(call)
				if strings.Contains(cut, ".") {
					c.R.Bad(rule, k, pos, "trim set mixes digits with the decimal point", "TrimRight(\"10.000000\", \"0.\") yields \"1\": significant zeros of the integer part are removed")
					continue
				}
				// dominated by strings.Contains(x, ".") == true on the same value
				guarded := false
				for _, cond := range core.CondsAt(b) {
					cc, ok := cond.V.(*ssa.Call)
					if !ok || !cond.True || core.StaticCalleeName(&cc.Call) != "strings.Contains" {
						continue
					}
					if s, ok := core.ConstString(cc.Call.Args[1]); ok && s == "." && cc.Call.Args[0] == call.Call.Args[0] {
						guarded = true
					}
				}
				if guarded {
					c.R.Ok(rule, k, pos, "digit trimming", "applied only to a rendering that contains a decimal point (zeros being trimmed are fractional), and the point is trimmed separately")
				} else {
					c.R.Bad(rule, k, pos, "digits trimmed from a rendering that may be an integer", "FormatShortInt(10) becomes \"1\": trailing zeros of an integer rendering are significant")
				}
			}
		}
	}
	// a float rendered with the digits it takes and no more (strconv.FormatFloat with precision -1) has no trailing zeros
	// to trim, and a whole count comes out without a fractional part
	for _, fn := range c.unitFuncs() {
		idx := 0
		for _, b := range fn.Blocks {
			for _, in := range b.Instrs {
				call, ok := in.(*ssa.Call)
				if !ok || core.StaticCalleeName(&call.Call) != "strconv.FormatFloat" || len(call.Call.Args) != 4 {
					continue
				}
				idx++
				n++
				k := key(rule, c.M.Key(fn), sprintf("float rendering #%d needs no trimming or is trimmed", idx))
				verb, okVerb := core.ConstInt(call.Call.Args[1])
				prec, okPrec := core.ConstInt(call.Call.Args[2])
				switch {
				case okVerb && okPrec && verb == 'f' && prec == -1:
					c.R.Ok(rule, k, c.M.InstrPos(call), "shortest rendering of an amount", "FormatFloat(x, 'f', -1, ..): no exponent, no trailing zeros, no fractional part for a whole count")
				case okVerb && verb == 'f' && flowsToTrim(call, map[ssa.Value]bool{}):
					c.R.Ok(rule, k, c.M.InstrPos(call), "fixed rendering of an amount", "its result is handed to strings.Trim*")
				case okVerb && verb == 'f' && c.onlyReparsed(call):
					c.R.Ok(rule, k, c.M.InstrPos(call), "trial rendering of an amount", "its result is only parsed back (strconv.ParseFloat), never printed")
				default:
					c.R.Bad(rule, k, c.M.InstrPos(call), "a float rendering of an amount that the parser may not read back",
						"an exponent (verbs e, g) or the trailing zeros of a fixed precision (\"1.000000minute\") are not in the grammar of the counts: the formatter's own output is rejected by the parser")
				}
			}
		}
	}
	c.R.Note("%s: %d digit-trimming / rendering call(s) examined", rule, n)
	// every fixed-precision float rendering is trimmed: the grammar's count groups of the larger units accept digits
	// only, so "1.000000minute" (an untrimmed %f of a whole count) cannot be parsed back
	for _, fn := range c.unitFuncs() {
		idx := 0
		for _, b := range fn.Blocks {
			for _, in := range b.Instrs {
				call, ok := in.(*ssa.Call)
				if !ok || core.StaticCalleeName(&call.Call) != "fmt.Sprintf" || !mayBeFloatVerb(call.Call.Args[0], 0) {
					continue
				}
				idx++
				k := key(rule, c.M.Key(fn), sprintf("fixed-precision float rendering #%d is trimmed", idx))
				if flowsToTrim(call, map[ssa.Value]bool{}) {
					c.R.Ok(rule, k, c.M.InstrPos(call), "%f rendering of an amount", "its result is handed to strings.Trim*: whole counts are rendered without a fractional part, as the grammar of the larger units requires")
				} else {
					c.R.Bad(rule, k, c.M.InstrPos(call), "a %f rendering of an amount is used untrimmed",
						"FormatLongFloat(60) on a seconds-based set yields \"1.000000minute\"; the count groups of the larger units accept digits only, so the formatter's own output is rejected by the parser")
				}
			}
		}
	}
	c.R.Floor(rule, 2)
}

// mayBeFloatVerb: the format string (a constant or a merge of constants) contains a fixed-precision float verb.
func mayBeFloatVerb(v ssa.Value, depth int) bool {
	if s, ok := core.ConstString(v); ok {
		return strings.Contains(s, "%f") || strings.Contains(s, "%.")
	}
	if phi, ok := v.(*ssa.Phi); ok && depth < 4 {
		for _, e := range phi.Edges {
			if mayBeFloatVerb(e, depth+1) {
				return true
			}
		}
	}
	return false
}

// onlyReparsed: the text is used for nothing but strconv.ParseFloat.
func (c *Ctx) onlyReparsed(call *ssa.Call) bool {
	refs := call.Referrers()
	if refs == nil || len(*refs) == 0 {
		return false
	}
	for _, r := range *refs {
		rc, ok := r.(*ssa.Call)
		if !ok || core.StaticCalleeName(&rc.Call) != "strconv.ParseFloat" {
			if _, isDebug := r.(*ssa.DebugRef); isDebug {
				continue
			}
			return false
		}
	}
	return true
}

func flowsToTrim(v ssa.Value, seen map[ssa.Value]bool) bool {
	if seen[v] || v.Referrers() == nil {
		return false
	}
	seen[v] = true
	for _, r := range *v.Referrers() {
		switch x := r.(type) {
		case *ssa.Call:
			if strings.HasPrefix(core.StaticCalleeName(&x.Call), "strings.Trim") && len(x.Call.Args) > 0 && x.Call.Args[0] == v {
				return true
			}
		case *ssa.Phi:
			if flowsToTrim(x, seen) {
				return true
			}
		}
	}
	return false
}

// R-SIBLING: the four UnitsDefinition.Format* functions perform the same computation: inside the loop over the
// multipliers the amount handed to the per-unit formatter is the quotient (derived from math.Floor), never the
// loop-carried remainder; after the loop the remainder goes to the base unit.
func (c *Ctx) ruleSibling(rule string) {
	for _, name := range []string{"FormatShortInt", "FormatShortFloat", "FormatLongInt", "FormatLongFloat"} {
		fn := c.fn(rule, "schema.UnitsDefinition."+name)
		if fn == nil {
			continue
		}
		var inLoop, afterLoop []*ssa.Call
		// the formatter itself, and the helper of the units file that holds its loop (the two integer formatters may share
		// one, with the per-unit formatter handed in as a function)
		scan := []*ssa.Function{fn}
		inFile := map[*ssa.Function]bool{}
		for _, f := range c.unitFuncs() {
			inFile[f] = true
		}
		for _, b := range fn.Blocks {
			for _, in := range b.Instrs {
				if call, ok := in.(*ssa.Call); ok {
					if h := core.StaticBody(&call.Call); h != nil && h != fn && inFile[h] && !strings.Contains(strings.ToLower(h.Name()), "format"+"number") {
						hasLoop := false
						for _, hb := range h.Blocks {
							if blockInLoop(hb) {
								hasLoop = true
							}
						}
						handsFunc := false
						for _, a := range call.Call.Args {
							if _, isFunc := a.Type().Underlying().(*types.Signature); isFunc {
								handsFunc = true
							}
						}
						if hasLoop && handsFunc {
							scan = append(scan, h)
						}
					}
				}
			}
		}
		for _, f := range scan {
			for _, b := range f.Blocks {
				for _, in := range b.Instrs {
					call, ok := in.(*ssa.Call)
					if !ok {
						continue
					}
					cs := c.M.Callees(&call.Call)
					all := len(cs) > 0
					for _, callee := range cs {
						if !strings.Contains(strings.ToLower(c.M.Key(callee)), "format") {
							all = false
						}
					}
					if !all || (f == fn && len(scan) > 1 && core.StaticBody(&call.Call) == scan[1]) {
						continue
					}
					if blockInLoop(b) {
						inLoop = append(inLoop, call)
					} else {
						afterLoop = append(afterLoop, call)
					}
				}
			}
		}
		k := key(rule, "schema.UnitsDefinition."+name, "per-unit amount is the quotient, remainder goes to the base unit")
		if len(inLoop) != 1 {
			c.R.Bad(rule, k, c.M.Pos(fn.Pos()), sprintf("%d formatter calls inside the multiplier loop, expected 1", len(inLoop)), "the four formatters no longer share one shape (undecided = fail)")
			continue
		}
		amount := numericArg(inLoop[0])
		fromFloor, fromPhi := derivesFrom(amount, 0)
		switch {
		case amount == nil:
			c.R.Bad(rule, k, c.M.InstrPos(inLoop[0]), "cannot identify the amount argument of the per-unit formatter", "undecided = fail")
		case fromPhi:
			c.R.Bad(rule, k, c.M.InstrPos(inLoop[0]), "the per-unit formatter receives the running remainder instead of the per-unit quotient",
				name+"(90) on a seconds-based set prints the remainder for every unit (\"...30minutes30seconds\"): formatting is no longer the inverse of parsing; the sibling formatters pass the quotient")
		case fromFloor:
			c.R.Ok(rule, k, c.M.InstrPos(inLoop[0]), "per-unit amount", "derived from the quotient (math.Floor of the division, or an integer division), as in the sibling formatters")
		default:
			c.R.Bad(rule, k, c.M.InstrPos(inLoop[0]), "the per-unit amount is neither the quotient nor recognisable", "undecided = fail")
		}
	}
	// integer formatters compute in integers: int64 -> float64 loses precision above 2^53, the floor of the float
	// quotient then exceeds the true quotient and the remainder goes negative ("13PB-1TB1023GB...")
	for _, name := range []string{"FormatShortInt", "FormatLongInt"} {
		fn := c.M.FuncByKey["schema.UnitsDefinition."+name]
		if fn == nil {
			continue
		}
		k := key(rule, "schema.UnitsDefinition."+name, "the integer formatter does not go through float64")
		bad := ""
		for _, b := range fn.Blocks {
			for _, in := range b.Instrs {
				cv, ok := in.(*ssa.Convert)
				if !ok {
					continue
				}
				from, ok1 := cv.X.Type().Underlying().(*types.Basic)
				to, ok2 := cv.Type().Underlying().(*types.Basic)
				if ok1 && ok2 && from.Info()&types.IsInteger != 0 && to.Info()&types.IsFloat != 0 {
					bad = c.M.InstrPos(cv)
				}
			}
		}
		if bad == "" {
			c.R.Ok(rule, k, c.M.Pos(fn.Pos()), "integer unit formatter", "no integer-to-float conversion: quotient and remainder are exact")
		} else {
			c.R.Bad(rule, k, bad, "the integer formatter converts the amount to float64",
				"above 2^53 the conversion rounds; the floor of the float quotient can exceed the true quotient, the remainder becomes negative and the output (\"13PB-1TB1023GB...\") cannot be parsed back")
		}
	}
	// the parser's integer result is the exact integer accumulator: the float accumulator has lost the low bits of totals
	// above 2^53, so converting it back (even behind a "it is whole" round-trip test, which a rounded float always passes)
	// returns a neighbouring number
	if pi := c.M.FuncByKey["schema.UnitsDefinition.ParseInt"]; pi != nil {
		scope := c.M.Reachable([]*ssa.Function{pi}, func(f *ssa.Function) bool {
			return !strings.HasSuffix(strings.SplitN(c.M.Pos(f.Pos()), ":", 2)[0], "schema/units.go")
		})
		k := key(rule, "schema.UnitsDefinition.ParseInt", "the integer result never comes from a float")
		bad := ""
		for _, f := range c.M.SortedFuncs(scope) {
			if !strings.HasSuffix(strings.SplitN(c.M.Pos(f.Pos()), ":", 2)[0], "schema/units.go") {
				continue
			}
			for _, b := range f.Blocks {
				for _, in := range b.Instrs {
					cv, ok := in.(*ssa.Convert)
					if !ok {
						continue
					}
					from, ok1 := cv.X.Type().Underlying().(*types.Basic)
					to, ok2 := cv.Type().Underlying().(*types.Basic)
					if ok1 && ok2 && from.Info()&types.IsFloat != 0 && to.Info()&types.IsInteger != 0 {
						bad = c.M.InstrPos(cv)
					}
				}
			}
		}
		if bad == "" {
			c.R.Ok(rule, k, c.M.Pos(pi.Pos()), "integer unit parser", "no float-to-integer conversion on the way from ParseInt through the unit code")
		} else {
			c.R.Bad(rule, k, bad, "the integer parser converts a float to an integer",
				"the float accumulator is inexact above 2^53: \"9007199254740993.0B\" comes back as 9007199254740992 - a wrong number instead of an error")
		}
	}
	c.R.Floor(rule, 4)
}

func numericArg(call *ssa.Call) ssa.Value {
	for _, a := range call.Call.Args {
		if bt, ok := a.Type().Underlying().(*types.Basic); ok && bt.Info()&types.IsNumeric != 0 {
			return a
		}
	}
	return nil
}

// derivesFrom classifies the per-unit amount: floor = it is computed from the quotient (math.Floor of a division, an
// integer division, possibly adjusted by a constant, merged over branches, or returned by a helper); phi = the running
// remainder flows into it (the loop-carried phi of the multiplier loop, or inside a helper the undivided parameter).
func derivesFrom(v ssa.Value, depth int) (floor bool, phi bool) {
	if v == nil || depth > 8 {
		return
	}
	switch x := v.(type) {
	case *ssa.Convert:
		return derivesFrom(x.X, depth+1)
	case *ssa.ChangeType:
		return derivesFrom(x.X, depth+1)
	case *ssa.Parameter:
		return false, true
	case *ssa.Extract:
		if call, ok := x.Tuple.(*ssa.Call); ok {
			return helperResult(call, x.Index, depth)
		}
	case *ssa.Call:
		if core.StaticCalleeName(&x.Call) == "math.Floor" && len(x.Call.Args) == 1 {
			if q, ok := x.Call.Args[0].(*ssa.BinOp); ok && q.Op == token.QUO {
				return true, false
			}
			return derivesFrom(x.Call.Args[0], depth+1)
		}
		return helperResult(x, 0, depth)
	case *ssa.Phi:
		if isLoopHeader(x.Block()) && depth < 3 {
			// the loop-carried value of the formatter's own loop over the multipliers: the running remainder. (Inside a
			// helper - depth >= 3 - a loop-carried value is a merge like any other: the count that a helper steps down
			// until it fits is still the quotient.)
			return false, true
		}
		for _, e := range x.Edges {
			f, p := derivesFrom(e, depth+1)
			floor = floor || f
			phi = phi || p
		}
		return
	case *ssa.BinOp:
		if x.Op == token.QUO {
			return true, false
		}
		f1, p1 := derivesFrom(x.X, depth+1)
		f2, p2 := derivesFrom(x.Y, depth+1)
		return f1 || f2, p1 || p2
	}
	return
}

// helperResult: result #idx of a static call to a repo function with a body, classified over all its returns.
func helperResult(call *ssa.Call, idx int, depth int) (floor bool, phi bool) {
	callee, ok := call.Call.Value.(*ssa.Function)
	if !ok || len(callee.Blocks) == 0 || depth > 3 {
		return
	}
	for _, r := range core.ReturnsOf(callee) {
		if idx >= len(r.Results) {
			continue
		}
		f, p := derivesFrom(core.RetVal(r, idx), depth+3)
		floor = floor || f
		phi = phi || p
	}
	return
}

func isLoopHeader(b *ssa.BasicBlock) bool {
	for _, p := range b.Preds {
		if b.Dominates(p) {
			return true
		}
	}
	return false
}

// quotedText: the text is made of nothing but results of regexp.QuoteMeta and constants - directly, concatenated,
// joined (strings.Join of a slice every element of which is such a text, with a constant separator), or handed out by a
// helper of the module every way out of which returns such a text.
func (c *Ctx) quotedText(v ssa.Value, depth int) bool {
	if v == nil || depth > 6 {
		return false
	}
	switch x := v.(type) {
	case *ssa.Const:
		return true
	case *ssa.MakeInterface:
		return c.quotedText(x.X, depth+1)
	case *ssa.BinOp:
		return x.Op == token.ADD && c.quotedText(x.X, depth+1) && c.quotedText(x.Y, depth+1)
	case *ssa.Phi:
		for _, e := range x.Edges {
			if !c.quotedText(e, depth+1) {
				return false
			}
		}
		return len(x.Edges) > 0
	case *ssa.Call:
		switch core.StaticCalleeName(&x.Call) {
		case "regexp.QuoteMeta":
			return true
		case "strings.Join":
			if _, isConst := x.Call.Args[1].(*ssa.Const); !isConst {
				return false
			}
			return c.quotedElems(x.Call.Args[0], depth+1)
		}
		if h := core.StaticBody(&x.Call); h != nil && h.Pkg != nil && c.M.IsRepoPkg(h.Pkg.Pkg) && h.Signature.Results().Len() == 1 {
			rets := core.ReturnInstrs(h)
			for _, r := range rets {
				if !c.quotedText(r.Results[0], depth+2) {
					return false
				}
			}
			return len(rets) > 0
		}
	}
	return false
}

// quotedElems: every element stored into the slice is a quoted text.
func (c *Ctx) quotedElems(s ssa.Value, depth int) bool {
	if depth > 8 {
		return false
	}
	stores := func(base ssa.Value) (int, bool) {
		n := 0
		if base.Referrers() == nil {
			return 0, true
		}
		for _, r := range *base.Referrers() {
			if ia, ok := r.(*ssa.IndexAddr); ok && ia.Referrers() != nil {
				for _, r2 := range *ia.Referrers() {
					if st, ok := r2.(*ssa.Store); ok && st.Addr == ssa.Value(ia) {
						n++
						if !c.quotedText(st.Val, depth+1) {
							return n, false
						}
					}
				}
			}
		}
		return n, true
	}
	switch x := s.(type) {
	case *ssa.MakeSlice:
		n, ok := stores(x)
		return ok && n > 0
	case *ssa.Slice:
		if al, ok := x.X.(*ssa.Alloc); ok {
			n, ok := stores(al)
			return ok && n > 0
		}
	case *ssa.Call:
		if bi, ok := x.Call.Value.(*ssa.Builtin); ok && bi.Name() == "append" {
			return c.quotedElems(x.Call.Args[0], depth+1) && (len(x.Call.Args) < 2 || c.quotedElems(x.Call.Args[1], depth+1))
		}
	case *ssa.Phi:
		for _, e := range x.Edges {
			if ee, isConst := e.(*ssa.Const); isConst && ee.IsNil() {
				continue
			}
			if !c.quotedElems(e, depth+1) {
				return false
			}
		}
		return true
	}
	return false
}
