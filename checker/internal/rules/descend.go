package rules

import (
	"go/types"
	"os"
	"strings"

	"golang.org/x/tools/go/ssa"

	"verifcheck/internal/core"
)

// R-DESCEND (C15): a composite schema (list, map, object, one-of, scope, reference) is compatible with another only if
// its children are. In the schema-mode code of a type whose compatibility check hands its children to their own
// ValidateCompatibility somewhere, an accepting `return nil` must not be reachable without having passed such a call
// (or the header of a loop that makes it for every child): a short cut that accepts two references "because they name
// the same object" never looks at the objects, which belong to two different scopes.
// Obligations: the literal accepting returns in schema mode of ValidateCompatibility and of the same-receiver helpers
// it calls, for every type that has a child call at all. Delegating returns (`return child.ValidateCompatibility(x)`)
// are the child call itself.
func (c *Ctx) ruleDescend(rule string) {
	n := 0
	for _, named := range c.serializableTypes() {
		root := c.methodBody(named, "ValidateCompatibility")
		if root == nil || len(root.Blocks) == 0 {
			continue
		}
		tname := named.Obj().Name()
		if !strings.HasPrefix(c.M.Key(root), "schema."+tname+".") {
			continue // promoted from an embedded type: checked there
		}
		// the method and the helpers on the same receiver it calls (two levels)
		fns := []*ssa.Function{root}
		seen := map[*ssa.Function]bool{root: true}
		for depth := 0; depth < 3; depth++ {
			for _, f := range append([]*ssa.Function{}, fns...) {
				for _, e := range c.M.Edges(f) {
					if !seen[e.To] && strings.HasPrefix(c.M.Key(e.To), "schema."+tname+".") && e.To.Name() != "Unserialize" && e.To.Name() != "Validate" && e.To.Name() != "Serialize" {
						seen[e.To] = true
						fns = append(fns, e.To)
					}
				}
			}
		}
		isChildCall := func(fn *ssa.Function, in ssa.Instruction) bool {
			call, ok := in.(*ssa.Call)
			if !ok {
				return false
			}
			name, recv, _, isOp := c.opCall(&call.Call)
			if !isOp || name != "ValidateCompatibility" || recv == nil || len(fn.Params) == 0 {
				return false
			}
			// the receiver of the call is reached from the method's own receiver (a field, an element of a field, the
			// referenced object), not the receiver itself
			return recv != ssa.Value(fn.Params[0]) && reachedFrom(recv, fn.Params[0], 0) && !isReceiverItself(recv, fn.Params[0])
		}
		hasChild := false
		for _, f := range fns {
			for _, b := range f.Blocks {
				for _, in := range b.Instrs {
					if isChildCall(f, in) {
						hasChild = true
					}
				}
			}
		}
		if os.Getenv("VERIF_DEBUG") != "" {
			println("DESCEND type", tname, len(fns), hasChild)
		}
		if !hasChild {
			continue
		}
		for _, f := range fns {
			ei := core.ErrorResultIndex(f.Signature)
			if ei < 0 {
				continue
			}
			wholeSchemaMode := false
			for _, p := range f.Params[1:] {
				_, isBasic := p.Type().Underlying().(*types.Basic)
				_, isMap := p.Type().Underlying().(*types.Map) // the set of object pairs under comparison is context, not a schema
				if !isBasic && !isMap && (c.isSchemaType(p.Type()) || c.isSDKType(p.Type())) {
					wholeSchemaMode = true
				}
			}
			gen := func(b *ssa.BasicBlock) bool {
				for _, in := range b.Instrs {
					if isChildCall(f, in) {
						return true
					}
				}
				// header of a loop that contains a child call
				for _, p := range b.Preds {
					if b.Dominates(p) {
						for _, lb := range f.Blocks {
							if b.Dominates(lb) && (lb == p || blockReaches(lb, b, nil)) {
								for _, in := range lb.Instrs {
									if isChildCall(f, in) {
										return true
									}
								}
							}
						}
					}
				}
				return false
			}
			hold := mustHoldGen(f, func(core.Cond) bool { return false }, gen)
			cnt := 0
			for _, r := range core.ReturnsOf(f) {
				if !core.IsNilConst(core.RetVal(r, ei)) {
					continue
				}
				if !wholeSchemaMode && !c.schemaModeAt(f, r.Block(), 0) {
					if os.Getenv("VERIF_DEBUG") != "" {
						println("DESCEND skip", c.M.Key(f), c.M.InstrPos(r))
					}
					continue
				}
				n++
				cnt++
				k := key(rule, c.M.Key(f), sprintf("schema-mode accept #%d has compared the children", cnt))
				enteredBefore := false
				for _, cond := range r.Conds() {
					if ex, ok := cond.V.(*ssa.Extract); ok && ex.Index == 1 && cond.True {
						if lk, ok := ex.Tuple.(*ssa.Lookup); ok && lk.CommaOk {
							if _, isParam := lk.X.(*ssa.Parameter); isParam {
								enteredBefore = true
							}
						}
					}
				}
				if enteredBefore {
					c.R.Ok(rule, k, c.M.InstrPos(r), "accepting return of a composite schema's compatibility check", "taken only where the pair (receiver, other) is found in the set of pairs the comparison has entered: its children are being, or have been, compared where it was entered (R-TERM checks that the set is handed round the whole comparison)")
				} else if hold[r.Key()] || gen(r.Block()) {
					c.R.Ok(rule, k, c.M.InstrPos(r), "accepting return of a composite schema's compatibility check", "every path to it passes a ValidateCompatibility call on a child (or the loop that makes it for every child)")
				} else {
					c.R.Bad(rule, k, c.M.InstrPos(r), "a composite schema accepts another schema without comparing the children",
						"some path to this return passes no ValidateCompatibility call on a child of "+tname+": two schemas that differ only below this point (another type, a missing required property, disjoint ranges inside the referenced object) are reported as compatible")
				}
			}
		}
	}
	c.R.Note("%s: %d literal schema-mode accepts in composite types examined", rule, n)
}

// reachedFrom: v is obtained from root by field loads, lookups, range iteration, method calls on it, assertions.
func reachedFrom(v, root ssa.Value, depth int) bool {
	if v == root {
		return true
	}
	if depth > 10 || v == nil {
		return false
	}
	switch x := v.(type) {
	case *ssa.UnOp:
		return reachedFrom(x.X, root, depth+1)
	case *ssa.FieldAddr:
		return reachedFrom(x.X, root, depth+1)
	case *ssa.Field:
		return reachedFrom(x.X, root, depth+1)
	case *ssa.IndexAddr:
		return reachedFrom(x.X, root, depth+1)
	case *ssa.Lookup:
		return reachedFrom(x.X, root, depth+1)
	case *ssa.Extract:
		return reachedFrom(x.Tuple, root, depth+1)
	case *ssa.Next:
		return reachedFrom(x.Iter, root, depth+1)
	case *ssa.Range:
		return reachedFrom(x.X, root, depth+1)
	case *ssa.TypeAssert:
		return reachedFrom(x.X, root, depth+1)
	case *ssa.ChangeInterface:
		return reachedFrom(x.X, root, depth+1)
	case *ssa.MakeInterface:
		return reachedFrom(x.X, root, depth+1)
	case *ssa.Phi:
		for _, e := range x.Edges {
			if reachedFrom(e, root, depth+1) {
				return true
			}
		}
	case *ssa.Call:
		if x.Call.IsInvoke() {
			return reachedFrom(x.Call.Value, root, depth+1)
		}
		if len(x.Call.Args) > 0 {
			return reachedFrom(x.Call.Args[0], root, depth+1)
		}
	case *ssa.Alloc:
		// a spilled copy of the receiver (value receivers whose address is taken)
		if refs := x.Referrers(); refs != nil {
			for _, r := range *refs {
				if st, ok := r.(*ssa.Store); ok && st.Addr == ssa.Value(x) && st.Val == root {
					return true
				}
			}
		}
	}
	return false
}

// isReceiverItself: v is the receiver or a plain copy / load of it (a recursive call on itself is not a child call).
func isReceiverItself(v, root ssa.Value) bool {
	for i := 0; i < 4; i++ {
		if v == root {
			return true
		}
		switch x := v.(type) {
		case *ssa.UnOp:
			if al, ok := x.X.(*ssa.Alloc); ok {
				if refs := al.Referrers(); refs != nil {
					for _, r := range *refs {
						if st, ok := r.(*ssa.Store); ok && st.Addr == ssa.Value(al) && st.Val == root {
							return true
						}
					}
				}
			}
			return false
		case *ssa.MakeInterface:
			v = x.X
		case *ssa.ChangeInterface:
			v = x.X
		default:
			return false
		}
	}
	return false
}
