package rules

import (
	"go/constant"
	"go/token"
	"go/types"

	"golang.org/x/tools/go/ssa"

	"verifcheck/internal/core"
)

// R-UNSETNIL: Unserialize leaves the struct field of an absent property at its zero value; for the kinds that have a
// nil (pointer, slice, map) the zero value is nil. Validate and Serialize decide "is this property set?" from the Go
// value in one place, the presence function: the function that looks the field up with the field cache's descriptor
// and returns a *reflect.Value, nil meaning unset. For each nilable kind K the presence function must be able to answer
// "unset" for a nil field of that kind: some branch edge `Kind() == K` (true) leads to an IsNil() test whose true edge
// leads to the nil return. Otherwise the value Unserialize returned for an accepted mapping is judged as if the absent
// property had been supplied empty (min-items, conflicts, required_if) and is rejected by Validate and Serialize.
// The rule says nothing about how the remaining conditions on that path (e.g. "unless required") are chosen.
func (c *Ctx) ruleUnsetNil(rule string) {
	kinds := map[string]int64{}
	if rp := c.M.Prog.ImportedPackage("reflect"); rp != nil {
		for _, n := range []string{"Pointer", "Slice", "Map"} {
			if k := rp.Const(n); k != nil {
				if v, ok := constant.Int64Val(k.Value.Value); ok {
					kinds[n] = v
				}
			}
		}
	}
	if len(kinds) != 3 {
		c.R.Unresolved(rule, "reflect.Kind constants")
		return
	}
	n := 0
	for _, fn := range c.M.SortedFuncs(c.scopePkg("schema")) {
		if !isPresenceFunction(fn) {
			continue
		}
		n++
		for _, kn := range []string{"Pointer", "Slice", "Map"} {
			k := key(rule, c.M.Key(fn), "a nil field of kind "+kn+" can be reported as unset")
			if presenceHandlesKind(fn, kinds[kn]) {
				c.R.Ok(rule, k, c.M.Pos(fn.Pos()), "presence of a struct-mapped property", "a Kind() == "+kn+" edge leads to an IsNil() test whose true edge leads to the nil (unset) return")
			} else {
				c.R.Bad(rule, k, c.M.Pos(fn.Pos()), "a nil "+kn+" field always counts as a supplied property",
					"Unserialize leaves the field of an absent "+kn+"-typed property nil; with no IsNil() test for that kind, Validate and Serialize treat the value Unserialize just returned as if the property had been supplied empty: min-items, conflicts and required_if rules reject it")
			}
		}
	}
	if n == 0 {
		c.R.Unresolved(rule, "the function that decides whether a struct-mapped property is set")
	}
}

// isPresenceFunction: returns *reflect.Value and looks a field up through a reflect.StructField descriptor.
func isPresenceFunction(fn *ssa.Function) bool {
	res := fn.Signature.Results()
	if res.Len() != 1 {
		return false
	}
	p, ok := res.At(0).Type().(*types.Pointer)
	if !ok {
		return false
	}
	nt, ok := p.Elem().(*types.Named)
	if !ok || nt.Obj().Pkg() == nil || nt.Obj().Pkg().Path() != "reflect" || nt.Obj().Name() != "Value" {
		return false
	}
	for _, b := range fn.Blocks {
		for _, in := range b.Instrs {
			if call, ok := in.(*ssa.Call); ok {
				switch reflectValueMethod(call) {
				case "FieldByIndexErr", "FieldByIndex", "FieldByName":
					if len(call.Call.Args) == 2 && fromStructField(call.Call.Args[1]) {
						return true
					}
				}
			}
		}
	}
	return false
}

func presenceHandlesKind(fn *ssa.Function, kind int64) bool {
	for _, b := range fn.Blocks {
		if len(b.Instrs) == 0 {
			continue
		}
		ifi, ok := b.Instrs[len(b.Instrs)-1].(*ssa.If)
		if !ok {
			continue
		}
		bo, ok := ifi.Cond.(*ssa.BinOp)
		if !ok || (bo.Op != token.EQL && bo.Op != token.NEQ) {
			continue
		}
		var kc ssa.Value
		var cv int64
		if v, ok := core.ConstInt(bo.Y); ok {
			kc, cv = bo.X, v
		} else if v, ok := core.ConstInt(bo.X); ok {
			kc, cv = bo.Y, v
		} else {
			continue
		}
		call, ok := kc.(*ssa.Call)
		if !ok || reflectValueMethod(call) != "Kind" || cv != kind {
			continue
		}
		target := b.Succs[0]
		if bo.Op == token.NEQ {
			target = b.Succs[1]
		}
		// an IsNil() test reachable from the edge, whose true edge reaches the nil return
		for _, nb := range fn.Blocks {
			if nb != target && !blockReaches(target, nb, nil) {
				continue
			}
			if len(nb.Instrs) == 0 {
				continue
			}
			nif, ok := nb.Instrs[len(nb.Instrs)-1].(*ssa.If)
			if !ok {
				continue
			}
			nc, ok := nif.Cond.(*ssa.Call)
			if !ok || reflectValueMethod(nc) != "IsNil" {
				continue
			}
			yes := nb.Succs[0]
			for _, r := range core.ReturnsOf(fn) {
				if !core.IsNilConst(core.RetVal(r, 0)) {
					continue
				}
				if r.Block() == yes || blockReaches(yes, r.Block(), nil) {
					return true
				}
			}
		}
	}
	return false
}
