package rules

import (
	"go/constant"
	"go/token"
	"go/types"
	"strings"

	"golang.org/x/tools/go/ssa"

	"verifcheck/internal/core"
)

// R-UNSETNIL: Unserialize leaves the struct field of an absent property at its zero value; for the kinds that have a
// nil (pointer, slice, map) the zero value is nil. Validate and Serialize decide "is this property set?" from the Go
// value in one place, the presence function: the function that looks the field up with the field cache's descriptor
// and returns a *reflect.Value, nil meaning unset. For each nilable kind K the presence function must be able to answer
// "unset" for a nil field of that kind: some branch edge `Kind() == K` (true) leads to an IsNil() test whose true edge
// leads to the nil return. Otherwise the value Unserialize returned for an accepted mapping is judged as if the absent
// property had been supplied empty (min-items, conflicts, required_if) and is rejected by Validate and Serialize.
// The rule says nothing about how the remaining conditions on that path (e.g. "unless required") are chosen.
func (c *Ctx) ruleUnsetNil(rule string) {
	kinds := map[string]int64{}
	if rp := c.M.Prog.ImportedPackage("reflect"); rp != nil {
		for _, n := range []string{"Pointer", "Slice", "Map"} {
			if k := rp.Const(n); k != nil {
				if v, ok := constant.Int64Val(k.Value.Value); ok {
					kinds[n] = v
				}
			}
		}
	}
	if len(kinds) != 3 {
		c.R.Unresolved(rule, "reflect.Kind constants")
		return
	}
	n := 0
	for _, fn := range c.M.SortedFuncs(c.scopePkg("schema")) {
		if !isPresenceFunction(fn) {
			continue
		}
		n++
		for _, kn := range []string{"Pointer", "Slice", "Map"} {
			k := key(rule, c.M.Key(fn), "a nil field of kind "+kn+" can be reported as unset")
			if presenceHandlesKind(fn, kinds[kn]) {
				c.R.Ok(rule, k, c.M.Pos(fn.Pos()), "presence of a struct-mapped property", "a Kind() == "+kn+" edge leads to an IsNil() test whose true edge leads to the nil (unset) return")
			} else {
				c.R.Bad(rule, k, c.M.Pos(fn.Pos()), "a nil "+kn+" field always counts as a supplied property",
					"Unserialize leaves the field of an absent "+kn+"-typed property nil; with no IsNil() test for that kind, Validate and Serialize treat the value Unserialize just returned as if the property had been supplied empty: min-items, conflicts and required_if rules reject it")
			}
		}
	}
	// a disabled property can never be supplied, so Unserialize always leaves its field at the zero value; for a field
	// that is not a pointer the zero value is all there is - the presence function must report it as unset, or Validate
	// and Serialize (which refuse a disabled property that is in use) refuse every value of the struct
	for _, fn := range c.M.SortedFuncs(c.scopePkg("schema")) {
		if !isPresenceFunction(fn) {
			continue
		}
		k := key(rule, c.M.Key(fn), "the zero value in the field of a disabled property is reported as unset")
		handled := false
		for _, dec := range presenceDeciders(fn) {
			fn := dec.fn
			for _, b := range fn.Blocks {
				if len(b.Instrs) == 0 {
					continue
				}
				ifi, ok := b.Instrs[len(b.Instrs)-1].(*ssa.If)
				if !ok {
					continue
				}
				ld, ok := ifi.Cond.(*ssa.UnOp)
				if !ok || ld.Op != token.MUL {
					continue
				}
				fa, ok := ld.X.(*ssa.FieldAddr)
				if !ok || fieldName(fa.X.Type(), fa.Field) != "Disabled" {
					continue
				}
				target := b.Succs[0]
				for _, nb := range fn.Blocks {
					if nb != target && !blockReaches(target, nb, nil) {
						continue
					}
					if len(nb.Instrs) == 0 {
						continue
					}
					nif, ok := nb.Instrs[len(nb.Instrs)-1].(*ssa.If)
					if !ok {
						continue
					}
					zc, ok := nif.Cond.(*ssa.Call)
					if !ok || reflectValueMethod(zc) != "IsZero" {
						continue
					}
					yes := nb.Succs[0]
					for _, r := range core.ReturnsOf(fn) {
						if dec.unset(core.RetVal(r, dec.idx)) && (r.Block() == yes || blockReaches(yes, r.Block(), nil)) {
							handled = true
						}
					}
				}
			}
		}
		if handled {
			c.R.Ok(rule, k, c.M.Pos(fn.Pos()), "presence of a struct-mapped property", "a Disabled edge leads to an IsZero() test whose true edge leads to the nil (unset) return")
		} else {
			c.R.Bad(rule, k, c.M.Pos(fn.Pos()), "the zero value of a disabled property's field counts as a supplied value",
				"Validate and Serialize refuse a disabled property that is in use; a non-pointer field always holds a value, so every value of a struct with a disabled property - including what Unserialize just returned - is refused")
		}
	}
	// what the presence function hands out is read with Interface(); reflection refuses that for an unexported field
	// (with a panic), so every path on which a field value is handed out must have found CanInterface() true
	for _, fn := range c.M.SortedFuncs(c.scopePkg("schema")) {
		if !isPresenceFunction(fn) {
			continue
		}
		k := key(rule, c.M.Key(fn), "a field value is handed out only if reflection may read it")
		est := func(cond core.Cond) bool {
			call, ok := cond.V.(*ssa.Call)
			return ok && cond.True && reflectValueMethod(call) == "CanInterface"
		}
		hold := core.MustHold(fn, est)
		bad := ""
		for _, r := range core.ReturnsOf(fn) {
			if core.IsNilConst(core.RetVal(r, 0)) {
				continue
			}
			if !hold[r.Key()] {
				bad = c.M.InstrPos(r)
			}
		}
		if bad == "" {
			c.R.Ok(rule, k, c.M.Pos(fn.Pos()), "presence of a struct-mapped property", "every return that hands out the field value is reached only after CanInterface() was found true")
		} else {
			c.R.Bad(rule, k, bad, "the value of an unexported field can be handed out",
				"the constructors accept a struct whose mapped field is unexported; Validate and Serialize then call Interface() on it and panic ('cannot return value obtained from unexported field') where Unserialize returns an error")
		}
	}
	if n == 0 {
		c.R.Unresolved(rule, "the function that decides whether a struct-mapped property is set")
	}
}

// isPresenceFunction: returns *reflect.Value and looks a field up through a reflect.StructField descriptor.
func isPresenceFunction(fn *ssa.Function) bool {
	res := fn.Signature.Results()
	if res.Len() != 1 && !(res.Len() == 2 && core.IsErrorType(res.At(1).Type())) {
		return false
	}
	p, ok := res.At(0).Type().(*types.Pointer)
	if !ok {
		return false
	}
	nt, ok := p.Elem().(*types.Named)
	if !ok || nt.Obj().Pkg() == nil || nt.Obj().Pkg().Path() != "reflect" || nt.Obj().Name() != "Value" {
		return false
	}
	looksUp := func(g *ssa.Function) bool {
		for _, b := range g.Blocks {
			for _, in := range b.Instrs {
				if call, ok := in.(*ssa.Call); ok {
					switch reflectValueMethod(call) {
					case "FieldByIndexErr", "FieldByIndex", "FieldByName":
						if len(call.Call.Args) == 2 && fromStructField(call.Call.Args[1]) {
							return true
						}
					}
				}
			}
		}
		return false
	}
	if looksUp(fn) {
		return true
	}
	// ... or hands the lookup to a finder of the package that returns the field as a reflect.Value
	for _, b := range fn.Blocks {
		for _, in := range b.Instrs {
			call, ok := in.(*ssa.Call)
			if !ok {
				continue
			}
			if g := core.StaticBody(&call.Call); g != nil && g != fn && g.Pkg == fn.Pkg && g.Signature.Results().Len() >= 1 &&
				typeStr(g.Signature.Results().At(0).Type()) == "reflect.Value" && len(core.PlainSites(g)) > 0 && looksUp(g) {
				return true
			}
		}
	}
	return false
}

// presenceDecider: a function in which "the property is not set" is decided - the presence function itself (its unset
// answer: nil in result 0), or a decider it calls (a function of the package that is handed the field as a reflect.Value
// and has a bool result whose false makes the presence function return nil: its unset answer is false in that result).
type presenceDecider struct {
	fn    *ssa.Function
	idx   int
	unset func(ssa.Value) bool
}

func presenceDeciders(p *ssa.Function) []presenceDecider {
	out := []presenceDecider{{p, 0, core.IsNilConst}}
	isFalse := func(v ssa.Value) bool {
		cst, ok := v.(*ssa.Const)
		return ok && cst.Value != nil && cst.Value.Kind() == constant.Bool && !constant.BoolVal(cst.Value)
	}
	for _, b := range p.Blocks {
		for _, in := range b.Instrs {
			call, ok := in.(*ssa.Call)
			if !ok || call.Referrers() == nil {
				continue
			}
			d := core.StaticBody(&call.Call)
			if d == nil || d == p || d.Pkg != p.Pkg || len(core.PlainSites(d)) == 0 {
				continue
			}
			takesField := false
			for _, prm := range d.Params {
				if typeStr(prm.Type()) == "reflect.Value" {
					takesField = true
				}
			}
			if !takesField {
				continue
			}
			for _, r := range *call.Referrers() {
				ex, isEx := r.(*ssa.Extract)
				if !isEx {
					continue
				}
				bt, isBasic := ex.Type().Underlying().(*types.Basic)
				if !isBasic || bt.Kind() != types.Bool {
					continue
				}
				// false makes the presence function answer unset
				for _, ret := range core.ReturnsOf(p) {
					if !core.IsNilConst(core.RetVal(ret, 0)) {
						continue
					}
					for _, cond := range ret.Conds() {
						if core.Unwrap(cond.V) == ssa.Value(ex) && !cond.True {
							out = append(out, presenceDecider{d, ex.Index, isFalse})
						}
					}
				}
			}
		}
	}
	return out
}

func presenceHandlesKind(p *ssa.Function, kind int64) bool {
	for _, d := range presenceDeciders(p) {
		if deciderHandlesKind(d, kind) {
			return true
		}
	}
	return false
}

func deciderHandlesKind(d presenceDecider, kind int64) bool {
	fn := d.fn
	if len(fn.Blocks) == 0 {
		return false
	}
	// Stated over paths, so that nested ifs, one && condition and conditions kept in variables all do: for a field of
	// that kind that is nil - every `Kind() == K'` is K' == kind, every IsNil() is true, anything else either way - some
	// path from the entry evaluates IsNil() after a kind test that holds, and ends in the nil (unset) return.
	val := func(v ssa.Value) (bool, bool) {
		switch x := v.(type) {
		case *ssa.BinOp:
			if x.Op != token.EQL && x.Op != token.NEQ {
				return false, false
			}
			for _, pr := range [][2]ssa.Value{{x.X, x.Y}, {x.Y, x.X}} {
				call, ok := pr[0].(*ssa.Call)
				if !ok || reflectValueMethod(call) != "Kind" {
					continue
				}
				if cv, isConst := core.ConstInt(pr[1]); isConst {
					return (cv == kind) == (x.Op == token.EQL), true
				}
			}
		case *ssa.Call:
			if reflectValueMethod(x) == "IsNil" {
				return true, true
			}
		}
		return false, false
	}
	// phase 1: from the entry to an IsNil() call; phase 2: from there to the nil return
	for _, b := range fn.Blocks {
		for _, in := range b.Instrs {
			nc, ok := in.(*ssa.Call)
			if !ok || reflectValueMethod(nc) != "IsNil" {
				continue
			}
			// is the call reached for a nil field of that kind?
			reachable := core.PathExists(nil, fn.Blocks[0], val, nil, func(tb, _ *ssa.BasicBlock, _ func(ssa.Value) (bool, bool)) bool { return tb == b })
			if !reachable {
				continue
			}
			// from the call on: the nil return, with the call's result true deciding
			after := core.PathExists(nil, b, val, nil, func(tb, prev *ssa.BasicBlock, env func(ssa.Value) (bool, bool)) bool {
				if len(tb.Instrs) == 0 {
					return false
				}
				r, isRet := tb.Instrs[len(tb.Instrs)-1].(*ssa.Return)
				if !isRet || len(r.Results) <= d.idx {
					return false
				}
				v := core.RetVal(r, d.idx)
				if phi, isPhi := v.(*ssa.Phi); isPhi && phi.Block() == tb && prev != nil {
					for i, p := range tb.Preds {
						if p == prev {
							v = phi.Edges[i]
						}
					}
				}
				return d.unset(v)
			})
			if after {
				return true
			}
		}
	}
	return false
}

// R-STOREALL: the struct mapper walks the supplied (already validated) properties and stores each into its field. Every
// way round that loop must pass a reflect.Value.Set (directly, or inside a closure invoked on the way): an iteration
// that goes round without storing drops a supplied value - for a pointer field, whose zero value means "not supplied",
// an explicit false / 0 / "" then reads back as absent (the default reappears, a required property is "missing").
// Ways round that first established that the field's kind is not Pointer are not obligations (skipping a zero value for
// a non-pointer field changes nothing).
func (c *Ctx) ruleStoreAll(rule string) {
	n := 0
	ptrKind := int64(-1)
	if rp := c.M.Prog.ImportedPackage("reflect"); rp != nil {
		if k := rp.Const("Pointer"); k != nil {
			if v, ok := constant.Int64Val(k.Value.Value); ok {
				ptrKind = v
			}
		}
	}
	for _, fn := range c.M.SortedFuncs(c.scopePkg("schema")) {
		// the field lookup through a StructField descriptor, inside a loop
		var lookup *ssa.Call
		for _, b := range fn.Blocks {
			for _, in := range b.Instrs {
				if call, ok := in.(*ssa.Call); ok && blockInLoop(b) {
					switch reflectValueMethod(call) {
					case "FieldByIndexErr", "FieldByIndex", "FieldByName":
						if len(call.Call.Args) == 2 && fromStructField(call.Call.Args[1]) {
							lookup = call
						}
					}
					// ... or through a helper of the package that is handed the struct value and the descriptor's index and
					// hands the field back (one that allocates embedded pointers on the way, say)
					if helper := core.StaticBody(&call.Call); helper != nil && len(call.Call.Args) == 2 && fromStructField(call.Call.Args[1]) &&
						helper.Signature.Results().Len() >= 1 && typeStr(helper.Signature.Results().At(0).Type()) == "reflect.Value" &&
						typeStr(call.Call.Args[0].Type()) == "reflect.Value" {
						lookup = call
					}
				}
			}
		}
		if lookup == nil {
			continue
		}
		n++
		k := key(rule, c.M.Key(fn), "every way round the field loop stores the supplied value")
		stores := func(b *ssa.BasicBlock) bool {
			for _, in := range b.Instrs {
				call, ok := in.(*ssa.Call)
				if !ok {
					continue
				}
				if m := reflectValueMethod(call); m == "Set" || strings.HasPrefix(m, "Set") {
					return true
				}
				var callee *ssa.Function
				switch v := call.Call.Value.(type) {
				case *ssa.Function:
					callee = v
				case *ssa.MakeClosure:
					callee, _ = v.Fn.(*ssa.Function)
				}
				// a closure of the mapper, or a helper of the package that is handed the field and sets it
				handedField := false
				for _, a := range call.Call.Args {
					if ex, isEx := a.(*ssa.Extract); isEx && ex.Tuple == ssa.Value(lookup) {
						handedField = true
					}
					if a == ssa.Value(lookup) {
						handedField = true
					}
				}
				if callee != nil && (callee.Parent() == fn || (call != lookup && handedField && core.StaticBody(&call.Call) != nil && len(core.PlainSites(core.StaticBody(&call.Call))) > 0)) {
					body := callee
					if callee.Parent() != fn {
						body = core.StaticBody(&call.Call)
					}
					for _, cb := range body.Blocks {
						for _, cin := range cb.Instrs {
							if cc, ok := cin.(*ssa.Call); ok && strings.HasPrefix(reflectValueMethod(cc), "Set") {
								return true
							}
						}
					}
				}
			}
			return false
		}
		notPointerEdge := func(p, s *ssa.BasicBlock) bool {
			if len(p.Instrs) == 0 || ptrKind < 0 {
				return false
			}
			ifi, ok := p.Instrs[len(p.Instrs)-1].(*ssa.If)
			if !ok || p.Succs[0] == p.Succs[1] {
				return false
			}
			bo, ok := ifi.Cond.(*ssa.BinOp)
			if !ok || (bo.Op != token.EQL && bo.Op != token.NEQ) {
				return false
			}
			kc, _ := bo.X.(*ssa.Call)
			cv, isC := core.ConstInt(bo.Y)
			if kc == nil || !isC || reflectValueMethod(kc) != "Kind" || cv != ptrKind {
				return false
			}
			onTrue := p.Succs[0] == s
			return (bo.Op == token.EQL) != onTrue
		}
		// the loop header: the innermost block that dominates the lookup and can be reached again from it
		var header *ssa.BasicBlock
		for d := lookup.Block(); d != nil; d = d.Idom() {
			for _, p := range d.Preds {
				if d.Dominates(p) {
					header = d
				}
			}
			if header != nil {
				break
			}
		}
		if header == nil {
			c.R.Bad(rule, k, c.M.InstrPos(lookup), "cannot find the loop around the field lookup", "undecided = fail")
			continue
		}
		// is there a way from the lookup back to the header that avoids every storing block?
		seen := map[*ssa.BasicBlock]bool{}
		var escape *ssa.BasicBlock
		var walk func(b *ssa.BasicBlock)
		walk = func(b *ssa.BasicBlock) {
			if seen[b] || escape != nil || stores(b) {
				return
			}
			seen[b] = true
			for _, s := range b.Succs {
				if notPointerEdge(b, s) {
					continue
				}
				if s == header {
					escape = b
					return
				}
				walk(s)
			}
		}
		walk(lookup.Block())
		if escape == nil {
			c.R.Ok(rule, k, c.M.InstrPos(lookup), "struct mapping loop", "no way from the field lookup back to the loop header avoids the store (returns aside)")
		} else {
			c.R.Bad(rule, k, c.M.Pos(escape.Instrs[len(escape.Instrs)-1].Pos()), "an iteration of the struct mapping loop can go round without storing the supplied value",
				"a supplied property is dropped; for a pointer field nil means \"not supplied\", so an explicit false / 0 / \"\" reads back as absent: the default reappears on the next round trip, a required property fails Validate")
		}
	}
	if n == 0 {
		c.R.Unresolved(rule, "the struct mapping loop (field lookup through a StructField descriptor inside a loop)")
	}
}

// R-SUPPLIEDNONNIL (C01 / C03, the producer side of R-UNSETNIL): in the field of a struct-mapped object a nil slice or
// map means "not supplied". What Unserialize of a list or map schema returns for a value that *was* supplied must
// therefore never be nil - not even for the empty list: an explicitly empty list is present for the rules evaluated on
// the raw map (required-if, conflicts) and would be absent for the same rules evaluated on the struct. Obligation: in
// the Unserialize method of every schema type whose reflected type is a slice or map (the method calls reflect.MakeSlice
// / MakeMap / MakeMapWithSize), every accepting return hands out `x.Interface()` of a Value made by one of those calls
// (through phis and Append), never of reflect.Zero / reflect.New(...).Elem() or a nil constant.
func (c *Ctx) ruleSuppliedNonNil(rule string) {
	isMake := func(call *ssa.Call) bool {
		switch core.StaticCalleeName(&call.Call) {
		case "reflect.MakeSlice", "reflect.MakeMap", "reflect.MakeMapWithSize", "reflect.Append", "reflect.AppendSlice":
			return true
		}
		return false
	}
	var made func(v ssa.Value, seen map[ssa.Value]bool) bool
	made = func(v ssa.Value, seen map[ssa.Value]bool) bool {
		if seen[v] {
			return true
		}
		seen[v] = true
		switch x := v.(type) {
		case *ssa.Call:
			return isMake(x)
		case *ssa.Phi:
			for _, e := range x.Edges {
				if !made(e, seen) {
					return false
				}
			}
			return len(x.Edges) > 0
		}
		return false
	}
	n := 0
	for _, fn := range c.M.SortedFuncs(c.scopePkg("schema")) {
		if fn.Name() != "Unserialize" || fn.Signature.Recv() == nil {
			continue
		}
		// (the container may be made by a worker that Unserialize hands over to: its ways out are Unserialize's)
		outs := core.WaysOut(fn)
		makes := false
		makers := map[*ssa.Function]bool{fn: true}
		for _, ret := range outs {
			makers[ret.Parent()] = true
		}
		for mf := range makers {
			for _, b := range mf.Blocks {
				for _, in := range b.Instrs {
					if call, ok := in.(*ssa.Call); ok && isMake(call) {
						makes = true
					}
				}
			}
		}
		if !makes {
			continue
		}
		ei := core.ErrorResultIndex(fn.Signature)
		if ei < 0 {
			continue
		}
		cnt := 0
		for _, ret := range outs {
			if c.M.RetNonNil(ret, ei) {
				continue
			}
			n++
			cnt++
			k := key(rule, c.M.Key(fn), sprintf("accepting return #%d hands out a made (non-nil) container", cnt))
			rv := core.Unwrap(core.RetVal(ret, 0))
			ok := false
			if ic, isCall := rv.(*ssa.Call); isCall && reflectValueMethod(ic) == "Interface" {
				ok = made(ic.Call.Args[0], map[ssa.Value]bool{})
			}
			if ok {
				c.R.Ok(rule, k, c.M.InstrPos(ret), "result of Unserialize for a supplied list / map", "Interface() of a Value made by reflect.MakeSlice / MakeMap on every incoming edge")
			} else {
				c.R.Bad(rule, k, c.M.InstrPos(ret), "Unserialize of a list / map can return a value that was not made by MakeSlice / MakeMap",
					"a nil slice / map (reflect.Zero, a nil constant) in the field of a struct-mapped object means 'not supplied': an explicitly empty list that another property depends on (required_if_not, conflicts) is accepted by Unserialize and the result is refused by Validate and Serialize of the same schema")
			}
		}
	}
	c.R.Floor(rule, 2)
}

// R-FIELDUNIQ (C12 "equal results whatever order the runtime iterates maps in"): the struct mapper walks the supplied
// properties in map order and stores each into the field the field cache names. If two properties name the same field
// the last one walked wins. The cache builder must therefore refuse a field that is already taken: every insertion
// into a map[string]reflect.StructField is reached only on the not-found outcome of a lookup, in another map, under a
// key computed from that very StructField (its Index or Name).
func (c *Ctx) ruleFieldUniq(rule string) {
	isSF := func(t types.Type) bool {
		n, ok := t.(*types.Named)
		return ok && n.Obj().Pkg() != nil && n.Obj().Pkg().Path() == "reflect" && n.Obj().Name() == "StructField"
	}
	var fromStructFieldVal func(v ssa.Value, d int) bool
	fromStructFieldVal = func(v ssa.Value, d int) bool {
		if d > 6 || v == nil {
			return false
		}
		switch x := v.(type) {
		case *ssa.Field:
			return isSF(x.X.Type())
		case *ssa.FieldAddr:
			if p, ok := x.X.Type().Underlying().(*types.Pointer); ok && isSF(p.Elem()) {
				return true
			}
		}
		if in, ok := v.(ssa.Instruction); ok {
			for _, op := range in.Operands(nil) {
				if *op != nil && fromStructFieldVal(*op, d+1) {
					return true
				}
			}
		}
		// a variadic argument slice: look at what is stored into its backing array
		for _, e := range variadicElems(v) {
			if e != nil && fromStructFieldVal(e, d+1) {
				return true
			}
		}
		return false
	}
	n := 0
	for _, fn := range c.M.SortedFuncs(c.scopePkg("schema")) {
		cnt := 0
		for _, b := range fn.Blocks {
			for _, in := range b.Instrs {
				mu, ok := in.(*ssa.MapUpdate)
				if !ok {
					continue
				}
				mt, ok := mu.Map.Type().Underlying().(*types.Map)
				if !ok || !isSF(mt.Elem()) {
					continue
				}
				n++
				cnt++
				k := key(rule, c.M.Key(fn), sprintf("field-cache insertion #%d only for a field that is not taken yet", cnt))
				est := func(cond core.Cond) bool {
					ex, ok := cond.V.(*ssa.Extract)
					if !ok || ex.Index != 1 || cond.True {
						return false
					}
					lk, ok := ex.Tuple.(*ssa.Lookup)
					return ok && lk.CommaOk && lk.X != mu.Map && fromStructFieldVal(lk.Index, 0)
				}
				if core.MustHold(fn, est)[b] {
					c.R.Ok(rule, k, c.M.InstrPos(mu), "mapping of a property to a struct field", "on every path a lookup keyed by the field (its Index / Name) in a second table found it not taken")
				} else if why := scannedRegistry(fn, b, fromStructFieldVal); why != "" {
					c.R.Ok(rule, k, c.M.InstrPos(mu), "mapping of a property to a struct field", why)
				} else {
					c.R.Bad(rule, k, c.M.InstrPos(mu), "two properties can be mapped to the same struct field",
						"one property is found by the field's json tag, another by the field's name: Unserialize stores both values into the one field in the iteration order of the supplied map, so a supplied value is overwritten by the other property's value or default at random")
				}
			}
		}
	}
	if n == 0 {
		c.R.Unresolved(rule, "construction of the property -> struct field cache (insertion into a map[string]reflect.StructField)")
	}
}

// scannedRegistry: the block b (an insertion into the field cache) is reached only behind a loop that compares a key
// computed from the StructField with the key of every field registered before - every comparison that matches leaves
// the function (panic / return) without reaching b - and the registry the loop walks is extended, on the way to b, by
// an entry computed from the StructField. This is the scan form of the not-taken lookup: it is what a comparison that
// is not an equality (one index path being the beginning of another) needs.
func scannedRegistry(fn *ssa.Function, b *ssa.BasicBlock, fromFieldBase func(ssa.Value, int) bool) string {
	for _, h := range fn.Blocks {
		if !isLoopHeader(h) || !h.Dominates(b) {
			continue
		}
		// natural loop of h
		loop := map[*ssa.BasicBlock]bool{h: true}
		var work []*ssa.BasicBlock
		for _, p := range h.Preds {
			if h.Dominates(p) && !loop[p] {
				loop[p] = true
				work = append(work, p)
			}
		}
		for len(work) > 0 {
			x := work[len(work)-1]
			work = work[:len(work)-1]
			for _, p := range x.Preds {
				if !loop[p] {
					loop[p] = true
					work = append(work, p)
				}
			}
		}
		if loop[b] {
			continue // the insertion is inside this loop (the loop over the properties), not behind it
		}
		// the element the loop walks: an Index / IndexAddr / Lookup / Next inside the loop
		fromElem := func(v ssa.Value) bool {
			return derivedFrom(v, func(x ssa.Value) bool {
				in, ok := x.(ssa.Instruction)
				if !ok || !loop[in.Block()] {
					return false
				}
				switch x.(type) {
				case *ssa.IndexAddr, *ssa.Index, *ssa.Lookup, *ssa.Next:
					return true
				}
				return false
			})
		}
		fromField := func(v ssa.Value, _ int) bool {
			return derivedFrom(v, func(x ssa.Value) bool { return fromFieldBase(x, 0) })
		}
		cmps, leaving := 0, true
		for lb := range loop {
			for _, in := range lb.Instrs {
				var x, y ssa.Value
				switch c := in.(type) {
				case *ssa.Call:
					switch core.StaticCalleeName(&c.Call) {
					case "strings.HasPrefix", "strings.EqualFold", "bytes.Equal", "bytes.HasPrefix", "slices.Equal", "reflect.DeepEqual":
						if len(c.Call.Args) == 2 {
							x, y = c.Call.Args[0], c.Call.Args[1]
						}
					}
				case *ssa.BinOp:
					if c.Op == token.EQL {
						x, y = c.X, c.Y
					}
				}
				if x == nil || !((fromField(x, 0) && fromElem(y)) || (fromField(y, 0) && fromElem(x))) {
					continue
				}
				cmps++
				// the matching outcome leaves the function without reaching the insertion
				iff, ok := lb.Instrs[len(lb.Instrs)-1].(*ssa.If)
				if !ok || iff.Cond != in.(ssa.Value) {
					leaving = false
					continue
				}
				t := lb.Succs[0]
				if t == b || blockReaches(t, b, nil) {
					leaving = false
				}
			}
		}
		if cmps == 0 || !leaving {
			continue
		}
		// the registry is extended by an entry computed from the field on the way to b
		extended := false
		for _, xb := range fn.Blocks {
			if !(xb == b || xb.Dominates(b)) || loop[xb] || !h.Dominates(xb) {
				continue
			}
			for _, in := range xb.Instrs {
				call, ok := in.(*ssa.Call)
				if !ok {
					continue
				}
				if bi, ok := call.Call.Value.(*ssa.Builtin); ok && bi.Name() == "append" && len(call.Call.Args) == 2 {
					for _, e := range variadicElems(call.Call.Args[1]) {
						if e != nil && fromField(e, 0) {
							extended = true
						}
					}
				}
			}
		}
		if extended {
			return sprintf("reached only behind a loop that compares a key computed from the field with the key of every field registered before (%d comparison(s), each leaving the function on a match), and the field is registered on the way", cmps)
		}
	}
	return ""
}

// derivedFrom: v is computed from a value that satisfies base - through operands, through what is stored into a local
// (or into its fields and elements) that v is loaded from, and through the elements of a variadic argument slice.
func derivedFrom(v ssa.Value, base func(ssa.Value) bool) bool {
	seen := map[ssa.Value]bool{}
	var rec func(v ssa.Value, d int) bool
	rec = func(v ssa.Value, d int) bool {
		if v == nil || d > 12 || seen[v] {
			return false
		}
		seen[v] = true
		if base(v) {
			return true
		}
		if al, ok := v.(*ssa.Alloc); ok {
			var stored func(addr ssa.Value) bool
			stored = func(addr ssa.Value) bool {
				refs := addr.Referrers()
				if refs == nil {
					return false
				}
				for _, r := range *refs {
					switch x := r.(type) {
					case *ssa.Store:
						if x.Addr == addr && rec(x.Val, d+1) {
							return true
						}
					case *ssa.FieldAddr:
						if x.X == addr && stored(x) {
							return true
						}
					case *ssa.IndexAddr:
						if x.X == addr && stored(x) {
							return true
						}
					}
				}
				return false
			}
			return stored(al)
		}
		if in, ok := v.(ssa.Instruction); ok {
			for _, op := range in.Operands(nil) {
				if *op != nil && rec(*op, d+1) {
					return true
				}
			}
		}
		for _, e := range variadicElems(v) {
			if e != nil && rec(e, d+1) {
				return true
			}
		}
		return false
	}
	return rec(v, 0)
}
