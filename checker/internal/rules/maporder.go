package rules

import (
	"go/constant"
	"go/token"
	"go/types"
	"strings"

	"golang.org/x/tools/go/ssa"

	"verifcheck/internal/core"
)

// R-MAPORDER: the outcome of a loop over a map (range, or reflect MapKeys) must not depend on iteration order.
//  (1) verdict homogeneity: the early exits of the loop (returns inside it) are all accepting or all rejecting
//      (an exists-search and a for-all check are both order independent; a loop mixing them is not). For functions
//      without an error result, early returns must return the same constants. A "loop" without a back edge picks an
//      arbitrary element and needs a dominating len(m) <= 1 fact.
//  (2) order-insensitive accumulation: slices, strings and writers filled inside the body must be sorted with a
//      total order before any other use, unless they only flow into an error message.

type mapLoop struct {
	fn          *ssa.Function
	header      *ssa.BasicBlock
	blocks      map[*ssa.BasicBlock]bool
	mapVal      ssa.Value // the map (or the MapKeys() call result)
	kind        string    // "range" | "MapKeys"
	pos         token.Pos
	hasBackEdge bool
	keyVal      ssa.Value
}

// findMapLoops locates range-over-map loops and loops over v.MapKeys() in fn.
func (c *Ctx) findMapLoops(m *core.Module, fn *ssa.Function) []*mapLoop {
	var out []*mapLoop
	for _, b := range fn.Blocks {
		for _, in := range b.Instrs {
			switch x := in.(type) {
			case *ssa.Next:
				rg, ok := x.Iter.(*ssa.Range)
				if !ok {
					continue
				}
				if _, isMap := rg.X.Type().Underlying().(*types.Map); !isMap {
					continue
				}
				l := &mapLoop{fn: fn, header: b, mapVal: rg.X, kind: "range", pos: rg.Pos()}
				l.compute()
				out = append(out, l)
			case *ssa.Call:
				if core.StaticCalleeName(&x.Call) == "(*reflect.MapIter).Next" {
					// for iter := v.MapRange(); iter.Next(); { ... }: the header is the block that calls Next
					l := &mapLoop{fn: fn, header: b, mapVal: x.Call.Args[0], kind: "MapRange", pos: x.Pos()}
					l.compute()
					out = append(out, l)
				}
				if core.StaticCalleeName(&x.Call) == "(reflect.Value).MapKeys" {
					// find the loop that indexes this slice: header = block with phi index compared to len(slice)
					if h := sliceLoopHeader(x); h != nil {
						l := &mapLoop{fn: fn, header: h, mapVal: x, kind: "MapKeys", pos: x.Pos()}
						l.compute()
						out = append(out, l)
					}
				}
			}
		}
	}
	return out
}

// sliceLoopHeader: for `for _, k := range s` over slice value s, the header block compares the index phi with len(s).
func sliceLoopHeader(s ssa.Value) *ssa.BasicBlock {
	refs := s.Referrers()
	if refs == nil {
		return nil
	}
	for _, r := range *refs {
		call, ok := r.(*ssa.Call)
		if !ok {
			continue
		}
		if bi, ok := call.Call.Value.(*ssa.Builtin); !ok || bi.Name() != "len" {
			continue
		}
		// len result used in a comparison inside a block ending in If, whose other operand is phi-derived
		for _, r2 := range *call.Referrers() {
			if bin, ok := r2.(*ssa.BinOp); ok && bin.Op == token.LSS {
				return bin.Block()
			}
		}
	}
	return nil
}

func (l *mapLoop) compute() {
	h := l.header
	l.blocks = map[*ssa.BasicBlock]bool{h: true}
	// natural loop of all back edges into h
	var stack []*ssa.BasicBlock
	for _, p := range h.Preds {
		if h.Dominates(p) {
			l.hasBackEdge = true
			if !l.blocks[p] {
				l.blocks[p] = true
				stack = append(stack, p)
			}
		}
	}
	for len(stack) > 0 {
		b := stack[len(stack)-1]
		stack = stack[:len(stack)-1]
		for _, p := range b.Preds {
			if !l.blocks[p] {
				l.blocks[p] = true
				stack = append(stack, p)
			}
		}
	}
	if !l.hasBackEdge {
		// body = blocks dominated by the header's "ok" successor
		if len(h.Succs) == 2 {
			body := h.Succs[0]
			for _, b := range l.fn.Blocks {
				if body.Dominates(b) {
					l.blocks[b] = true
				}
			}
		}
	} else {
		// also include blocks dominated by the header that cannot reach the header (early exits: returns, panics)
		exit := l.exitBlock()
		for _, b := range l.fn.Blocks {
			if l.blocks[b] || !h.Dominates(b) || b == h {
				continue
			}
			if exit != nil && exit.Dominates(b) {
				continue
			}
			l.blocks[b] = true
		}
	}
}

// exitBlock: the successor of the header taken when the iteration is exhausted.
func (l *mapLoop) exitBlock() *ssa.BasicBlock {
	h := l.header
	if len(h.Succs) != 2 {
		return nil
	}
	// the successor that is not part of the natural loop body
	if l.kind == "range" {
		return h.Succs[1]
	}
	return h.Succs[1]
}

const (
	exitAccept = "accept"
	exitReject = "reject"
	exitMixed  = "unknown"
)

func (c *Ctx) classifyReturn(m *core.Module, fn *ssa.Function, r *ssa.Return) string {
	ei := core.ErrorResultIndex(fn.Signature)
	if ei < 0 {
		return ""
	}
	e := core.RetVal(r, ei)
	if core.IsNilConst(e) {
		return exitAccept
	}
	if m.ProvablyNonNilError(e, r.Block()) {
		return exitReject
	}
	return exitMixed
}

func (c *Ctx) ruleMapOrder(rule string, m *core.Module, fns map[*ssa.Function]bool) {
	for _, fn := range m.SortedFuncs(fns) {
		loops := c.findMapLoops(m, fn)
		for i, l := range loops {
			mapDesc := c.stableIn(m, fn, m.ValPath(l.mapVal))
			if l.kind == "MapKeys" || l.kind == "MapRange" {
				if call, ok := l.mapVal.(*ssa.Call); ok && len(call.Call.Args) > 0 {
					mapDesc = l.kind + "(" + c.stableIn(m, fn, m.ValPath(call.Call.Args[0])) + ")"
				}
			}
			base := key(rule, m.Key(fn), "loop#"+string(rune('1'+i))+" over "+mapDesc)
			pos := m.Pos(l.pos)
			c.checkLoopExits(rule, m, l, base, pos)
			c.checkLoopAccumulation(rule, m, l, base, pos)
			c.checkLoopCarriedReads(rule, m, l, base, pos)
			c.checkConvertedKeyInsert(rule, m, l, base, pos)
			c.checkLastWriter(rule, m, l, base, pos)
		}
		c.checkMapIterators(rule, m, fn)
	}
}

// checkMapIterators: maps.Keys / maps.Values / maps.All hand a map's contents out in iteration order, like a range loop.
// Each call is an instance: handed straight to slices.Sorted the order is fixed; collected with slices.Collect the
// result is an accumulation in map order and must be sorted before any other use; any other consumer is not decided.
func (c *Ctx) checkMapIterators(rule string, m *core.Module, fn *ssa.Function) {
	n := 0
	for _, b := range fn.Blocks {
		for _, in := range b.Instrs {
			call, ok := in.(*ssa.Call)
			if !ok {
				continue
			}
			name := core.StaticCalleeName(&call.Call)
			if name != "maps.Keys" && name != "maps.Values" && name != "maps.All" {
				continue
			}
			n++
			mapDesc := "<map>"
			if len(call.Call.Args) > 0 {
				mapDesc = c.stableIn(m, fn, m.ValPath(call.Call.Args[0]))
			}
			k := key(rule, m.Key(fn), sprintf("%s #%d over %s | order fixed before use", name, n, mapDesc))
			verdict, why := "undecided", "the iterator is consumed by something other than slices.Sorted / slices.Collect"
			if refs := call.Referrers(); refs != nil && len(*refs) > 0 {
				verdict = ""
				for _, r := range *refs {
					rc, isCall := r.(*ssa.Call)
					if !isCall {
						verdict = "undecided"
						continue
					}
					switch core.StaticCalleeName(&rc.Call) {
					case "slices.Sorted":
						if verdict == "" {
							verdict, why = "sorted", "handed to slices.Sorted: the result is in ascending order whatever order the map is walked in"
						}
					case "slices.Collect":
						l := &mapLoop{fn: fn, header: rc.Block(), blocks: map[*ssa.BasicBlock]bool{}, mapVal: call, kind: "iter", pos: call.Pos()}
						v, w := c.accumulationFlow(m, l, rc)
						switch v {
						case "sorted":
							if verdict == "" {
								verdict, why = "sorted", w
							}
						case "message":
							if verdict == "" {
								verdict, why = "message", ""
							}
						default:
							verdict, why = "escapes", w
						}
					default:
						verdict = "undecided"
					}
				}
			}
			switch verdict {
			case "sorted":
				c.R.Ok(rule, k, m.InstrPos(call), "iteration over a map through an iterator", why)
			case "message":
				c.R.Add(core.Obligation{Rule: rule, Key: k, Pos: m.InstrPos(call), What: "iteration over a map through an iterator", Status: core.Info,
					How: "the collected value only flows into a panic or log text"})
			case "escapes":
				c.R.Bad(rule, k, m.InstrPos(call), "the contents of a map reach a result in iteration order", why)
			default:
				c.R.Bad(rule, k, m.InstrPos(call), "iteration over a map through an iterator whose consumer is not decided", why+" (undecided = fail)")
			}
		}
	}
}

// ruleConvertedKeys: only the converted-key clause of R-MAPORDER (C02: two source keys that convert to one key merge,
// and the size bounds checked on the source no longer hold for the result).
func (c *Ctx) ruleConvertedKeys(rule string, m *core.Module, fns map[*ssa.Function]bool) {
	for _, fn := range m.SortedFuncs(fns) {
		for i, l := range c.findMapLoops(m, fn) {
			mapDesc := c.stableIn(m, fn, m.ValPath(l.mapVal))
			if l.kind == "MapKeys" || l.kind == "MapRange" {
				if call, ok := l.mapVal.(*ssa.Call); ok && len(call.Call.Args) > 0 {
					mapDesc = l.kind + "(" + c.stableIn(m, fn, m.ValPath(call.Call.Args[0])) + ")"
				}
			}
			base := key(rule, m.Key(fn), "loop#"+string(rune('1'+i))+" over "+mapDesc)
			c.checkConvertedKeyInsert(rule, m, l, base, m.Pos(l.pos))
		}
	}
}

// singleEntryMap: the loop is entered only where `len(M) == 1` is known for the SSA value M it ranges over.
func singleEntryMap(l *mapLoop) bool {
	for _, cond := range core.CondsAt(l.header) {
		bin, ok := cond.V.(*ssa.BinOp)
		if !ok {
			continue
		}
		isEq := (bin.Op == token.EQL && cond.True) || (bin.Op == token.NEQ && !cond.True)
		if !isEq {
			continue
		}
		for _, pr := range [][2]ssa.Value{{bin.X, bin.Y}, {bin.Y, bin.X}} {
			call, isCall := pr[0].(*ssa.Call)
			if !isCall {
				continue
			}
			if bi, isBI := call.Call.Value.(*ssa.Builtin); !isBI || bi.Name() != "len" || call.Call.Args[0] != l.mapVal {
				continue
			}
			if one, isConst := core.ConstInt(pr[1]); isConst && one == 1 {
				return true
			}
		}
	}
	return false
}

func (c *Ctx) stableIn(m *core.Module, fn *ssa.Function, p string) string {
	if m == c.M {
		return c.stable(fn, p)
	}
	return regRe.ReplaceAllString(p, "<value>")
}

func (c *Ctx) checkLoopExits(rule string, m *core.Module, l *mapLoop, base, pos string) {
	fn := l.fn
	var rets []*ssa.Return
	for b := range l.blocks {
		if len(b.Instrs) == 0 {
			continue
		}
		if r, ok := b.Instrs[len(b.Instrs)-1].(*ssa.Return); ok {
			rets = append(rets, r)
		}
	}
	k := base + " | exits"
	if !l.hasBackEdge {
		// at most one iteration: the element is arbitrary unless the map has at most one entry
		if c.lenAtMostOne(m, l) {
			c.R.Ok(rule, k, pos, "map loop body always leaves the loop (runs at most once)", "a dominating test excludes len(map) > 1, so the single element is the only choice")
		} else if len(rets) == 0 {
			c.R.Ok(rule, k, pos, "map loop without early exits", "no early exit")
		} else {
			c.R.Bad(rule, k, pos, "map loop whose body never iterates again picks an arbitrary element",
				"the body returns on its first iteration and no dominating fact bounds the map to one entry: which element is used depends on map order")
		}
		return
	}
	if len(rets) == 0 {
		c.R.Ok(rule, k, pos, "map loop exits", "no early return inside the loop")
		return
	}
	ei := core.ErrorResultIndex(fn.Signature)
	if ei >= 0 {
		classes := map[string]int{}
		for _, r := range rets {
			classes[c.classifyReturn(m, fn, r)]++
		}
		switch {
		case classes[exitMixed] == 0 && (classes[exitAccept] == 0 || classes[exitReject] == 0):
			what := "for-all check (all early exits reject)"
			if classes[exitAccept] > 0 {
				what = "exists-search (all early exits accept)"
			}
			c.R.Ok(rule, k, pos, "map loop exits", sprintf("%s: %d early exits of one class, verdict independent of order", what, len(rets)))
		default:
			c.R.Bad(rule, k, pos, "map loop with early exits of different verdicts",
				sprintf("%d accepting, %d rejecting, %d undetermined early returns inside one loop over a map: which one is reached first depends on iteration order",
					classes[exitAccept], classes[exitReject], classes[exitMixed]))
		}
		return
	}
	// no error result: early returns must agree on constants
	var first []string
	same := true
	for _, r := range rets {
		var cur []string
		for i := range r.Results {
			v := core.RetVal(r, i)
			if cst, ok := v.(*ssa.Const); ok {
				cur = append(cur, cst.String())
			} else {
				cur = append(cur, "nonconst")
				same = false
			}
		}
		if first == nil {
			first = cur
		} else if strings.Join(first, ",") != strings.Join(cur, ",") {
			same = false
		}
	}
	if same {
		c.R.Ok(rule, k, pos, "map loop exits", "all early returns yield the same constants "+strings.Join(first, ","))
	} else {
		c.R.Bad(rule, k, pos, "map loop whose early returns differ", "early returns inside a loop over a map yield different or element-dependent values: the result depends on iteration order")
	}
}

// lenAtMostOne: a dominating condition `len(X) > 1` is false (or `len(X) == 1` true / `<= 1` true) for the ranged map.
func (c *Ctx) lenAtMostOne(m *core.Module, l *mapLoop) bool {
	mp := m.ValPath(l.mapVal)
	check := func(conds []core.Cond) bool {
		for _, cond := range conds {
			bin, ok := cond.V.(*ssa.BinOp)
			if !ok {
				continue
			}
			call, ok := bin.X.(*ssa.Call)
			if !ok {
				continue
			}
			bi, ok := call.Call.Value.(*ssa.Builtin)
			// (the test may sit in a predicate of the receiver that the loop is entered behind: its receiver stands for the
			// value it was called on)
			if !ok || bi.Name() != "len" || m.CondPath(l.fn, cond, call.Call.Args[0]) != mp {
				continue
			}
			n, ok := core.ConstInt(bin.Y)
			if !ok {
				continue
			}
			switch {
			case bin.Op == token.GTR && n == 1 && !cond.True,
				bin.Op == token.EQL && n == 1 && cond.True,
				bin.Op == token.LEQ && n == 1 && cond.True,
				bin.Op == token.LSS && n == 2 && cond.True,
				bin.Op == token.NEQ && n == 1 && !cond.True:
				return true
			}
		}
		return false
	}
	if check(core.CondsAt(l.header)) {
		return true
	}
	// the guard may sit in the caller: all static callers must establish it for the same receiver field
	callers := 0
	okAll := true
	for _, g := range m.Funcs {
		for _, b := range g.Blocks {
			for _, in := range b.Instrs {
				call, ok := in.(*ssa.Call)
				if !ok {
					continue
				}
				for _, callee := range m.Callees(&call.Call) {
					if callee != l.fn {
						continue
					}
					callers++
					// map path in callee is relative to its receiver param; translate
					if len(call.Call.Args) == 0 || len(l.fn.Params) == 0 {
						okAll = false
						continue
					}
					recv := l.fn.Params[0].Name()
					if !strings.HasPrefix(mp, recv+".") {
						okAll = false
						continue
					}
					want := m.ValPath(call.Call.Args[0]) + mp[len(recv):]
					found := false
					for _, cond := range core.CondsAt(b) {
						bin, ok := cond.V.(*ssa.BinOp)
						if !ok {
							continue
						}
						lc, ok := bin.X.(*ssa.Call)
						if !ok {
							continue
						}
						bi, ok := lc.Call.Value.(*ssa.Builtin)
						if !ok || bi.Name() != "len" || m.ValPath(lc.Call.Args[0]) != want {
							continue
						}
						n, ok := core.ConstInt(bin.Y)
						if ok && bin.Op == token.EQL && n == 1 && cond.True {
							found = true
						}
					}
					if !found {
						okAll = false
					}
				}
			}
		}
	}
	return callers > 0 && okAll
}

// checkLoopAccumulation: order-sensitive sinks inside the loop body.
func (c *Ctx) checkLoopAccumulation(rule string, m *core.Module, l *mapLoop, base, pos string) {
	type sink struct {
		obj  ssa.Value
		what string
		at   ssa.Instruction
	}
	var sinks []sink
	for b := range l.blocks {
		for _, in := range b.Instrs {
			switch x := in.(type) {
			case *ssa.Call:
				if bi, ok := x.Call.Value.(*ssa.Builtin); ok && bi.Name() == "append" {
					// an accumulation only if what is appended to is carried from one iteration to the next: a slice made
					// anew in every iteration from a value the loop does not change (append(path[:n:n], x) handed to a
					// callee) collects nothing
					if appendsToLoopCarried(x.Call.Args[0], l, 0) {
						sinks = append(sinks, sink{x, "append", x})
					}
					continue
				}
				n := core.StaticCalleeName(&x.Call)
				switch n {
				case "fmt.Fprintf", "fmt.Fprint", "fmt.Fprintln":
					sinks = append(sinks, sink{x.Call.Args[0], "write to an io.Writer", x})
				}
				if strings.HasPrefix(n, "(*bufio.Writer).Write") || strings.HasPrefix(n, "(*bytes.Buffer).Write") || strings.HasPrefix(n, "(*strings.Builder).Write") {
					sinks = append(sinks, sink{x.Call.Args[0], "write to a buffer", x})
				}
			case *ssa.BinOp:
				if x.Op == token.ADD {
					if bt, ok := x.Type().Underlying().(*types.Basic); ok && bt.Info()&types.IsString != 0 {
						// loop carried?
						if phiInLoop(x.X, l) || phiInLoop(x.Y, l) {
							sinks = append(sinks, sink{x, "string concatenation", x})
						}
					}
				}
			case *ssa.Store:
				if ia, ok := x.Addr.(*ssa.IndexAddr); ok {
					// s[i] = elem with i loop carried
					if phiInLoop(ia.Index, l) {
						sinks = append(sinks, sink{ia.X, "indexed store with a running counter", x})
					}
				}
			}
		}
	}
	if len(sinks) == 0 {
		return
	}
	seen := map[string]bool{}
	for _, s := range sinks {
		k := base + " | accumulates by " + s.what
		if seen[k] {
			continue
		}
		seen[k] = true
		verdict, why := "", ""
		if strings.HasPrefix(s.what, "write to") {
			// bytes written to a writer cannot be re-ordered afterwards: the writer must be local to the iteration
			w := core.Unwrap(s.obj)
			definedInLoop := false
			if in, ok := w.(ssa.Instruction); ok && l.blocks[in.Block()] {
				definedInLoop = true
			}
			isStderr := false
			if ld, ok := w.(*ssa.UnOp); ok {
				if g, ok := ld.X.(*ssa.Global); ok && (g.Name() == "Stderr") {
					isStderr = true
				}
			}
			// a strings.Builder / bytes.Buffer that is a local of this function is a string under construction: what
			// matters is where its String() / Bytes() go
			localBuilderMsg := false
			if al, isAlloc := w.(*ssa.Alloc); isAlloc && !definedInLoop {
				tn := typeStr(al.Type())
				if strings.HasSuffix(tn, "strings.Builder") || strings.HasSuffix(tn, "bytes.Buffer") {
					c.msgIsErrorText = false
					all, n := true, 0
					for _, r := range *al.Referrers() {
						rc, isCall := r.(*ssa.Call)
						if !isCall {
							continue
						}
						name := core.StaticCalleeName(&rc.Call)
						if !strings.HasSuffix(name, ").String") && !strings.HasSuffix(name, ").Bytes") {
							continue
						}
						n++
						if refs := rc.Referrers(); refs != nil {
							for _, u := range *refs {
								if !c.onlyMessage(m, u, rc, 0) {
									all = false
								}
							}
						}
					}
					if n > 0 && all && !c.msgIsErrorText {
						localBuilderMsg = true
					}
				}
			}
			switch {
			case isStderr, localBuilderMsg:
				verdict = "message"
			case definedInLoop:
				verdict, why = "sorted", "the writer is created inside the iteration"
			default:
				verdict, why = "escapes", "output is written to a writer that outlives the loop while iterating a map: the order of the emitted text is the map's iteration order and differs between runs"
			}
		} else {
			c.msgIsErrorText = false
			verdict, why = c.accumulationFlow(m, l, s.obj)
			if verdict == "message" && c.msgIsErrorText {
				// the text of a returned error is the result of the call that is refused (all there is of it, for
				// Validate and the compatibility check): a list in map order makes it differ from call to call
				verdict, why = "escapes", "the accumulated value becomes part of the text of a returned error without passing through a total-order sort: the same input is refused with a different error from call to call (sort the list, as the enum does)"
			}
		}
		p := m.InstrPos(s.at)
		switch verdict {
		case "sorted":
			c.R.Ok(rule, k, p, "order-sensitive accumulation inside a map loop", why)
		case "message":
			c.R.Add(core.Obligation{Rule: rule, Key: k, Pos: p, What: "order-sensitive accumulation inside a map loop", Status: core.Info,
				How: "the accumulated value only flows into an error message / log text; the property speaks of verdicts and results, not message text"})
		default:
			c.R.Bad(rule, k, p, "order-sensitive accumulation inside a map loop reaches a result unsorted", why)
		}
	}
}

func phiInLoop(v ssa.Value, l *mapLoop) bool {
	for i := 0; i < 4; i++ {
		switch x := v.(type) {
		case *ssa.Phi:
			return x.Block() == l.header || l.blocks[x.Block()]
		case *ssa.BinOp:
			if _, ok := x.X.(*ssa.Phi); ok {
				v = x.X
				continue
			}
			v = x.Y
			continue
		case *ssa.UnOp:
			// load of a local variable that is stored inside the loop
			if al, ok := x.X.(*ssa.Alloc); ok {
				for _, r := range *al.Referrers() {
					if st, ok := r.(*ssa.Store); ok && l.blocks[st.Block()] {
						return true
					}
				}
			}
			return false
		case *ssa.Convert:
			v = x.X
			continue
		}
		return false
	}
	return false
}

// accumulationFlow follows the accumulated object to its uses outside the loop.
func (c *Ctx) accumulationFlow(m *core.Module, l *mapLoop, obj ssa.Value) (string, string) {
	// collect the "same object" family: phis / appends / loads connected to obj
	family := map[ssa.Value]bool{}
	var allocs []*ssa.Alloc
	var grow func(v ssa.Value)
	grow = func(v ssa.Value) {
		if v == nil || family[v] {
			return
		}
		switch x := v.(type) {
		case *ssa.Const:
			return
		case *ssa.Phi:
			family[v] = true
			for _, e := range x.Edges {
				grow(e)
			}
		case *ssa.Call:
			if bi, ok := x.Call.Value.(*ssa.Builtin); ok && bi.Name() == "append" {
				family[v] = true
				grow(x.Call.Args[0])
			} else {
				family[v] = true
			}
		case *ssa.BinOp:
			if x.Op == token.ADD {
				family[v] = true
				if _, isPhi := x.X.(*ssa.Phi); isPhi {
					grow(x.X)
				}
				if _, isPhi := x.Y.(*ssa.Phi); isPhi {
					grow(x.Y)
				}
			}
		case *ssa.UnOp:
			family[v] = true
			if al, ok := x.X.(*ssa.Alloc); ok {
				allocs = append(allocs, al)
			}
		case *ssa.MakeSlice, *ssa.Alloc, *ssa.Slice:
			family[v] = true
			if s, ok := v.(*ssa.Slice); ok {
				grow(s.X)
			}
		default:
			family[v] = true
		}
	}
	grow(obj)
	// local variables holding the object: all loads/stores of those allocs belong to the family
	for i := 0; i < len(allocs); i++ {
		al := allocs[i]
		for _, r := range *al.Referrers() {
			switch x := r.(type) {
			case *ssa.Store:
				if x.Addr == ssa.Value(al) {
					grow(x.Val)
				}
			case *ssa.UnOp:
				family[x] = true
			}
		}
	}
	// also forward: phis/appends that consume family members (growth continues after the loop)
	changed := true
	for changed {
		changed = false
		for v := range family {
			refs := v.Referrers()
			if refs == nil {
				continue
			}
			for _, r := range *refs {
				switch x := r.(type) {
				case *ssa.Phi:
					if !family[x] {
						family[x] = true
						changed = true
					}
				case *ssa.Call:
					if bi, ok := x.Call.Value.(*ssa.Builtin); ok && bi.Name() == "append" && x.Call.Args[0] == v && !family[x] {
						family[x] = true
						changed = true
					}
				case *ssa.BinOp:
					if x.Op == token.ADD && !family[x] {
						if _, isStr := x.Type().Underlying().(*types.Basic); isStr {
							family[x] = true
							changed = true
						}
					}
				case *ssa.Slice:
					if !family[x] {
						family[x] = true
						changed = true
					}
				case *ssa.Store:
					if al, ok := x.Addr.(*ssa.Alloc); ok && x.Val == v {
						for _, r2 := range *al.Referrers() {
							if ld, ok := r2.(*ssa.UnOp); ok && !family[ld] {
								family[ld] = true
								changed = true
							}
						}
					}
				}
			}
		}
	}
	// uses outside the family
	sorted := false
	var sortCall *ssa.Call
	type use struct {
		in ssa.Instruction
		v  ssa.Value
	}
	var uses []use
	for v := range family {
		refs := v.Referrers()
		if refs == nil {
			continue
		}
		for _, r := range *refs {
			if rv, ok := r.(ssa.Value); ok && family[rv] {
				continue
			}
			if st, ok := r.(*ssa.Store); ok {
				if _, isAl := st.Addr.(*ssa.Alloc); isAl && st.Val == v {
					continue // store into the local variable of the family
				}
				if ia, ok := st.Addr.(*ssa.IndexAddr); ok && family[ia.X] {
					continue
				}
			}
			if ia, ok := r.(*ssa.IndexAddr); ok && ia.X == v {
				// element access: writes are the accumulation itself; reads count as uses
				onlyStores := true
				for _, r2 := range *ia.Referrers() {
					if _, isSt := r2.(*ssa.Store); !isSt {
						onlyStores = false
					}
				}
				if onlyStores {
					continue
				}
			}
			if call, ok := r.(*ssa.Call); ok {
				if bi, ok := call.Call.Value.(*ssa.Builtin); ok && (bi.Name() == "len" || bi.Name() == "cap") {
					continue
				}
				n := core.StaticCalleeName(&call.Call)
				if isTotalSort(m, call, n) && len(call.Call.Args) > 0 && call.Call.Args[0] == v {
					sorted = true
					sortCall = call
					continue
				}
			}
			if mi, ok := r.(*ssa.MakeInterface); ok {
				// boxed only to be handed to sort.Slice / sort.SliceStable ?
				isSort := false
				if mrefs := mi.Referrers(); mrefs != nil && len(*mrefs) == 1 {
					if call, ok := (*mrefs)[0].(*ssa.Call); ok && isTotalSort(m, call, core.StaticCalleeName(&call.Call)) && call.Call.Args[0] == ssa.Value(mi) {
						sorted = true
						sortCall = call
						isSort = true
					}
				}
				if isSort {
					continue
				}
			}
			if mc, ok := r.(*ssa.MakeClosure); ok {
				// captured by the less function of a sort call
				if mrefs := mc.Referrers(); mrefs != nil && len(*mrefs) == 1 {
					if call, ok := (*mrefs)[0].(*ssa.Call); ok && strings.HasPrefix(core.StaticCalleeName(&call.Call), "sort.Slice") {
						continue
					}
				}
			}
			uses = append(uses, use{r, v})
		}
	}
	if sorted {
		// every other use must come after the sort (dominated by it) or be inside the loop
		for _, u := range uses {
			if l.blocks[u.in.Block()] {
				continue
			}
			if !instrDominates(sortCall, u.in) {
				return "escapes", "a use of the accumulated value is not dominated by the sort at " + m.InstrPos(sortCall)
			}
		}
		return "sorted", "sorted with a total order (" + core.StaticCalleeName(&sortCall.Call) + ") before any use outside the loop"
	}
	// no sort: does it only reach messages?
	for _, u := range uses {
		if l.blocks[u.in.Block()] {
			// uses inside the loop other than accumulation (e.g. passing to Sprintf) are themselves order sensitive only via the final value
			continue
		}
		if !c.onlyMessage(m, u.in, u.v, 0) {
			return "escapes", "the accumulated value reaches " + describeInstr(u.in) + " at " + m.InstrPos(u.in) + " without passing through a total-order sort; its element order is the map's iteration order"
		}
	}
	return "message", ""
}

func describeInstr(in ssa.Instruction) string {
	switch x := in.(type) {
	case *ssa.Return:
		return "a return value"
	case *ssa.Store:
		return "a store"
	case *ssa.Call:
		if n := core.StaticCalleeName(&x.Call); n != "" {
			return "a call of " + n
		}
		return "a call"
	}
	return "another use"
}

func instrDominates(a, b ssa.Instruction) bool {
	if a.Block() == b.Block() {
		for _, in := range a.Block().Instrs {
			if in == a {
				return true
			}
			if in == b {
				return false
			}
		}
	}
	return a.Block().Dominates(b.Block())
}

// isTotalSort: sort.Strings / Ints / Float64s / slices.Sort, or sort.Slice(Stable) whose less function compares
// the elements themselves with < or >.
func isTotalSort(m *core.Module, call *ssa.Call, name string) bool {
	switch name {
	case "sort.Strings", "sort.Ints", "sort.Float64s", "slices.Sort":
		return true
	case "sort.Slice", "sort.SliceStable":
		if len(call.Call.Args) != 2 {
			return false
		}
		mc, ok := call.Call.Args[1].(*ssa.MakeClosure)
		if !ok {
			return false
		}
		fn, ok := mc.Fn.(*ssa.Function)
		if !ok {
			return false
		}
		return lessComparesElements(fn)
	case "slices.SortFunc", "slices.SortStableFunc":
		// a comparison function that hands its two parameters (in either order) to cmp.Compare, or compares them with <
		if len(call.Call.Args) != 2 {
			return false
		}
		var fn *ssa.Function
		switch f := call.Call.Args[1].(type) {
		case *ssa.MakeClosure:
			fn, _ = f.Fn.(*ssa.Function)
		case *ssa.Function:
			fn = f
		}
		if fn == nil || len(fn.Params) != 2 {
			return false
		}
		rets := core.ReturnsOf(fn)
		if len(rets) != 1 || len(rets[0].Results) != 1 {
			return false
		}
		cc, ok := core.RetVal(rets[0], 0).(*ssa.Call)
		if !ok || core.StaticCalleeName(&cc.Call) != "cmp.Compare" || len(cc.Call.Args) != 2 {
			return false
		}
		a, b := cc.Call.Args[0], cc.Call.Args[1]
		p0, p1 := ssa.Value(fn.Params[0]), ssa.Value(fn.Params[1])
		return (a == p0 && b == p1) || (a == p1 && b == p0)
	}
	return false
}

// lessComparesElements: the closure returns x[i] < x[j] (or >) where both operands are direct element loads.
func lessComparesElements(fn *ssa.Function) bool {
	rets := core.ReturnsOf(fn)
	if len(rets) != 1 || len(rets[0].Results) != 1 {
		return false
	}
	bin, ok := core.RetVal(rets[0], 0).(*ssa.BinOp)
	if !ok || (bin.Op != token.LSS && bin.Op != token.GTR) {
		return false
	}
	isElem := func(v ssa.Value) bool {
		ld, ok := v.(*ssa.UnOp)
		if !ok || ld.Op != token.MUL {
			return false
		}
		ia, ok := ld.X.(*ssa.IndexAddr)
		if !ok {
			return false
		}
		_, isParam := ia.Index.(*ssa.Parameter)
		return isParam
	}
	return isElem(bin.X) && isElem(bin.Y)
}

// onlyMessage: the value used by instruction `in` ends up only in error text / logs / panics.
func (c *Ctx) onlyMessage(m *core.Module, in ssa.Instruction, v ssa.Value, depth int) bool {
	return c.onlyMsg(m, in, map[ssa.Instruction]bool{}, 0)
}

func (c *Ctx) onlyMsg(m *core.Module, in ssa.Instruction, seen map[ssa.Instruction]bool, depth int) bool {
	if seen[in] {
		return true
	}
	seen[in] = true
	if depth > 40 {
		return false
	}
	follow := func(res ssa.Value) bool {
		refs := res.Referrers()
		if refs == nil {
			return true
		}
		for _, r := range *refs {
			if !c.onlyMsg(m, r, seen, depth+1) {
				return false
			}
		}
		return true
	}
	switch x := in.(type) {
	case *ssa.Call:
		n := core.StaticCalleeName(&x.Call)
		switch n {
		case "fmt.Errorf", "errors.New":
			c.msgIsErrorText = true
			return true
		case "fmt.Sprintf", "strings.Join", "fmt.Sprint":
			return follow(x)
		}
		if bi, ok := x.Call.Value.(*ssa.Builtin); ok && (bi.Name() == "len" || bi.Name() == "cap") {
			return true
		}
		if x.Call.IsInvoke() && strings.HasSuffix(typeStr(x.Call.Value.Type()), "Logger") {
			return true
		}
		return false
	case *ssa.Panic:
		return true
	case *ssa.MakeInterface:
		return follow(x)
	case *ssa.Slice:
		return follow(x)
	case *ssa.Store:
		switch a := x.Addr.(type) {
		case *ssa.IndexAddr:
			// store into an array / slice: follow the container
			if av, ok := a.X.(ssa.Value); ok {
				return follow(av)
			}
		case *ssa.FieldAddr:
			if f := structField(a.X.Type(), a.Field); f != nil && f.Name() == "Message" {
				if strings.HasSuffix(typeStr(a.X.Type()), "ConstraintError") {
					c.msgIsErrorText = true
				}
				return true
			}
		case *ssa.Alloc:
			return follow(a)
		}
		return false
	case *ssa.BinOp:
		if x.Op == token.ADD {
			return follow(x)
		}
		// "is there a message at all": whether the text is empty does not depend on the order of its parts
		if x.Op == token.EQL || x.Op == token.NEQ {
			for _, operand := range []ssa.Value{x.X, x.Y} {
				if k, isStr := core.ConstString(operand); isStr && k == "" {
					return true
				}
			}
		}
		return false
	case *ssa.Phi:
		return follow(x)
	case *ssa.IndexAddr:
		return follow(x)
	case *ssa.UnOp:
		return follow(x)
	case *ssa.Return:
		// interprocedural: every static caller uses the result only for messages
		fn := x.Parent()
		idx := -1
		for i, r := range x.Results {
			for s := range seen {
				if sv, ok := s.(ssa.Value); ok && sv == r {
					idx = i
				}
			}
		}
		if idx < 0 {
			idx = 0
		}
		callers := 0
		for _, g := range m.Funcs {
			for _, b := range g.Blocks {
				for _, ins := range b.Instrs {
					call, ok := ins.(*ssa.Call)
					if !ok {
						continue
					}
					for _, callee := range m.Callees(&call.Call) {
						if callee != fn {
							continue
						}
						callers++
						if fn.Signature.Results().Len() == 1 {
							if !follow(call) {
								return false
							}
						} else {
							for _, r := range *call.Referrers() {
								if e, ok := r.(*ssa.Extract); ok && e.Index == idx && !follow(e) {
									return false
								}
							}
						}
					}
				}
			}
		}
		return callers > 0 && !ast_IsExported(fn.Name())
	}
	return false
}

// ---- loop-carried reads of a map the loop is filling -------------------------------------------------------------------
//
// A loop over a map that inserts into another map (typically result[key] = ...) and, in the same loop, reads that map
// at a key other than the current one sees whatever earlier iterations happened to insert: the outcome depends on the
// iteration order. Obligations: every read (lookup, range, or hand-over to a callee that reads) of a map that the loop
// also updates; discharged when the read is at the loop's own key (or, in a callee, at the parameter that receives it).

// loopKeys: values that are the current key of the loop (and copies of it).
func loopKeys(l *mapLoop) map[ssa.Value]bool {
	keys := map[ssa.Value]bool{}
	for b := range l.blocks {
		for _, in := range b.Instrs {
			switch x := in.(type) {
			case *ssa.Extract:
				if nx, ok := x.Tuple.(*ssa.Next); ok && x.Index == 1 && l.kind == "range" {
					if rg, ok := nx.Iter.(*ssa.Range); ok && rg.X == l.mapVal {
						keys[x] = true
					}
				}
			case *ssa.Call:
				if l.kind == "MapRange" && core.StaticCalleeName(&x.Call) == "(*reflect.MapIter).Key" && x.Call.Args[0] == l.mapVal {
					keys[x] = true
				}
			case *ssa.UnOp:
				// an element of the slice that MapKeys() handed out
				if ia, ok := x.X.(*ssa.IndexAddr); ok && x.Op == token.MUL && l.kind == "MapKeys" && ia.X == l.mapVal {
					keys[x] = true
				}
			}
		}
	}
	for changed := true; changed; {
		changed = false
		for b := range l.blocks {
			for _, in := range b.Instrs {
				v, ok := in.(ssa.Value)
				if !ok || keys[v] {
					continue
				}
				switch x := in.(type) {
				case *ssa.ChangeType:
					if keys[x.X] {
						keys[v] = true
						changed = true
					}
				case *ssa.Convert:
					if keys[x.X] {
						keys[v] = true
						changed = true
					}
				case *ssa.MakeInterface:
					if keys[x.X] {
						keys[v] = true
						changed = true
					}
				case *ssa.TypeAssert:
					if keys[x.X] {
						keys[v] = true
						changed = true
					}
				case *ssa.Extract:
					if keys[x.Tuple] && x.Index == 0 {
						keys[v] = true
						changed = true
					}
				case *ssa.Call:
					if core.StaticCalleeName(&x.Call) == "(reflect.Value).Interface" && keys[x.Call.Args[0]] {
						keys[v] = true
						changed = true
					}
				}
			}
		}
	}
	return keys
}

// readsOtherKeys: fn reads its map parameter mp at a key that is not one of the parameters in keyParams (or ranges
// over it). Depth-bounded.
func (c *Ctx) readsOtherKeys(m *core.Module, fn *ssa.Function, mp int, keyParams map[int]bool, depth int) (bool, string) {
	if depth > 3 || len(fn.Blocks) == 0 || mp >= len(fn.Params) {
		return false, ""
	}
	mv := ssa.Value(fn.Params[mp])
	isKey := func(v ssa.Value) bool {
		for i := 0; i < 4; i++ {
			if p, ok := v.(*ssa.Parameter); ok {
				for j, q := range fn.Params {
					if q == p && keyParams[j] {
						return true
					}
				}
				return false
			}
			switch x := v.(type) {
			case *ssa.ChangeType:
				v = x.X
			case *ssa.Convert:
				v = x.X
			default:
				return false
			}
		}
		return false
	}
	for _, b := range fn.Blocks {
		for _, in := range b.Instrs {
			switch x := in.(type) {
			case *ssa.Lookup:
				if x.X == mv && !isKey(x.Index) {
					return true, "lookup at " + m.InstrPos(x) + " in " + m.Key(fn)
				}
			case *ssa.Range:
				if x.X == mv {
					return true, "range at " + m.InstrPos(x) + " in " + m.Key(fn)
				}
			case *ssa.Call:
				args := x.Call.Args
				off := 0
				if x.Call.IsInvoke() {
					off = 1
				}
				for ai, a := range args {
					if a != mv {
						continue
					}
					for _, g := range m.Callees(&x.Call) {
						kp := map[int]bool{}
						for aj, a2 := range args {
							if isKey(a2) {
								kp[aj+off] = true
							}
						}
						if bad, why := c.readsOtherKeys(m, g, ai+off, kp, depth+1); bad {
							return true, why
						}
					}
				}
			}
		}
	}
	return false, ""
}

func (c *Ctx) checkLoopCarriedReads(rule string, m *core.Module, l *mapLoop, base, pos string) {
	written := map[ssa.Value]bool{}
	for _, b := range l.fn.Blocks {
		if !l.blocks[b] {
			continue
		}
		for _, in := range b.Instrs {
			if mu, ok := in.(*ssa.MapUpdate); ok && mu.Map != l.mapVal {
				written[mu.Map] = true
			}
		}
	}
	if len(written) == 0 {
		return
	}
	keys := loopKeys(l)
	n := 0
	for _, b := range l.fn.Blocks {
		if !l.blocks[b] {
			continue
		}
		for _, in := range b.Instrs {
			switch x := in.(type) {
			case *ssa.Lookup:
				if !written[x.X] {
					continue
				}
				n++
				k := key(base, sprintf("read #%d of the map the loop fills (%s)", n, c.stableIn(m, l.fn, m.ValPath(x.X))))
				if keys[x.Index] {
					c.R.Ok(rule, k, m.InstrPos(x), "read of a map that the loop also updates", "the read is at the loop's own key: it cannot see another iteration's insertion")
				} else if c.isDuplicateReject(l, x) {
					c.R.Ok(rule, k, m.InstrPos(x), "read of a map that the loop also updates", "a duplicate test on the key about to be inserted whose 'present' branch leaves the loop: the verdict (reject) does not depend on the order")
				} else {
					c.R.Bad(rule, k, m.InstrPos(x), "the loop reads the map it is filling at a key other than the current one",
						"whether that entry is already there depends on which iterations ran before: the verdict or result depends on the map iteration order")
				}
			case *ssa.Range:
				if written[x.X] {
					n++
					c.R.Bad(rule, key(base, sprintf("read #%d of the map the loop fills (range)", n)), m.InstrPos(x), "the loop ranges over the map it is filling",
						"what it sees depends on which iterations ran before")
				}
			case *ssa.Call:
				args := x.Call.Args
				off := 0
				if x.Call.IsInvoke() {
					off = 1
				}
				for ai, a := range args {
					if !written[a] {
						continue
					}
					callees := m.Callees(&x.Call)
					if len(callees) == 0 {
						continue
					}
					n++
					k := key(base, sprintf("hand-over #%d of the map the loop fills (%s)", n, c.stableIn(m, l.fn, m.ValPath(a))))
					kp := map[int]bool{}
					for aj, a2 := range args {
						if keys[a2] {
							kp[aj+off] = true
						}
					}
					bad, why := false, ""
					for _, g := range callees {
						if b2, w := c.readsOtherKeys(m, g, ai+off, kp, 0); b2 {
							bad, why = true, w
						}
					}
					if bad {
						c.R.Bad(rule, k, m.InstrPos(x), "the loop hands the map it is filling to a function that reads it at other keys",
							why+": whether those entries are already there depends on which iterations ran before, so the verdict or result depends on the map iteration order")
					} else {
						c.R.Ok(rule, k, m.InstrPos(x), "hand-over of a map that the loop also updates", "the callee reads it only at the parameter that receives the loop's key")
					}
				}
			}
		}
	}
}

// ---- insertion under a converted key ----------------------------------------------------------------------------------
//
// A loop over a map that inserts into its result under conv(key) - the key after conversion by a child schema -
// makes two source entries whose keys convert to the same value (1 and "1", "1m" and "60s", int32(1) and int64(1))
// overwrite each other: which one survives, and whether size bounds checked on the source still hold, depends on the
// iteration order. Such an insertion must be preceded, on every path, by a presence test of that key in the result
// whose "present" branch does not reach the insertion.
func (c *Ctx) checkConvertedKeyInsert(rule string, m *core.Module, l *mapLoop, base, pos string) {
	keys := loopKeys(l)
	derived := func(v ssa.Value) bool {
		// v is (a result of) a call that received the loop key
		for i := 0; i < 4; i++ {
			switch x := v.(type) {
			case *ssa.Extract:
				v = x.Tuple
				continue
			case *ssa.Call:
				if core.StaticCalleeName(&x.Call) == "reflect.ValueOf" && len(x.Call.Args) == 1 {
					v = x.Call.Args[0]
					continue
				}
				for _, a := range x.Call.Args {
					if keys[a] {
						return true
					}
					// ... or what an accessor made of the loop key (`convert(key.Interface())`)
					if mi, isMI := a.(*ssa.MakeInterface); isMI {
						a = mi.X
					}
					if inner, isCall := a.(*ssa.Call); isCall {
						for _, ia := range inner.Call.Args {
							if keys[ia] {
								return true
							}
						}
					}
				}
				return false
			case *ssa.MakeInterface:
				v = x.X
				continue
			}
			return false
		}
		return false
	}
	n := 0
	for _, b := range l.fn.Blocks {
		if !l.blocks[b] {
			continue
		}
		for _, in := range b.Instrs {
			var target, key ssa.Value
			switch x := in.(type) {
			case *ssa.MapUpdate:
				target, key = x.Map, x.Key
			case *ssa.Call:
				if core.StaticCalleeName(&x.Call) == "(reflect.Value).SetMapIndex" && len(x.Call.Args) == 3 {
					target, key = x.Call.Args[0], x.Call.Args[1]
				}
			}
			if target == nil || target == l.mapVal || keys[key] || !derived(key) {
				continue
			}
			n++
			k := key2(base, sprintf("insertion #%d under a converted key is preceded by a duplicate test", n))
			tested := false
			for _, cond := range core.CondsAt(b) {
				switch y := cond.V.(type) {
				case *ssa.Extract:
					if lk, ok := y.Tuple.(*ssa.Lookup); ok && y.Index == 1 && lk.CommaOk && lk.X == target && sameKeyValue(lk.Index, key) && !cond.True {
						tested = true
					}
				case *ssa.Call:
					if core.StaticCalleeName(&y.Call) == "(reflect.Value).IsValid" && !cond.True {
						if mi, ok := y.Call.Args[0].(*ssa.Call); ok && core.StaticCalleeName(&mi.Call) == "(reflect.Value).MapIndex" && mi.Call.Args[0] == target && sameKeyValue(mi.Call.Args[1], key) {
							tested = true
						}
					}
				}
			}
			if tested {
				c.R.Ok(rule, k, m.InstrPos(in), "insertion under a converted key", "dominated by a test that the key is not in the result yet")
			} else {
				c.R.Bad(rule, k, m.InstrPos(in), "the loop inserts under a converted key without testing for a duplicate",
					"two source keys that convert to the same key (1 and \"1\", \"1m\" and \"60s\") overwrite each other: the surviving entry, and whether the size bounds checked on the source hold for the result, depend on the map iteration order")
			}
		}
	}
}

func key2(base, what string) string { return base + " | " + what }

func sameKeyValue(a, b ssa.Value) bool {
	if a == b {
		return true
	}
	// reflect.ValueOf(x) twice, or a stored copy
	ca, oka := a.(*ssa.Call)
	cb, okb := b.(*ssa.Call)
	if oka && okb && core.StaticCalleeName(&ca.Call) == "reflect.ValueOf" && core.StaticCalleeName(&cb.Call) == "reflect.ValueOf" {
		return ca.Call.Args[0] == cb.Call.Args[0]
	}
	return false
}

// isDuplicateReject: lk is `_, present := m[k]` for the key k of an insertion into m in the same loop, and the
// `present` branch cannot come back to the loop header (it rejects).
func (c *Ctx) isDuplicateReject(l *mapLoop, lk *ssa.Lookup) bool {
	if !lk.CommaOk {
		return false
	}
	inserted := false
	for b := range l.blocks {
		for _, in := range b.Instrs {
			if mu, ok := in.(*ssa.MapUpdate); ok && mu.Map == lk.X && sameKeyValue(mu.Key, lk.Index) {
				inserted = true
			}
		}
	}
	if !inserted {
		return false
	}
	for _, r := range *lk.Referrers() {
		ex, ok := r.(*ssa.Extract)
		if !ok || ex.Index != 1 {
			continue
		}
		for _, r2 := range *ex.Referrers() {
			ifi, ok := r2.(*ssa.If)
			if !ok {
				continue
			}
			present := ifi.Block().Succs[0]
			if present == l.header || blockReaches(present, l.header, nil) {
				return false
			}
			return true
		}
	}
	return false
}

// ---- last writer wins -----------------------------------------------------------------------------------------------------

// A variable that lives across the iterations of a map loop (a phi in the loop header) and is overwritten inside the
// body with a value of the current iteration - not computed from its previous value - keeps whatever the LAST visited
// matching entry put there: `for k, v := range m { if match(v) { found = &k } }`. With more than one matching entry the
// result is the map's iteration order. Obligations: every such overwrite. Discharged when, on every path from the loop
// header to the overwrite, a branch condition either
//   - compares the loop's key with the variable by an order (<, >, <=, >=): a selection of the minimum / maximum key is
//     independent of the visiting order because map keys are unique, or
//   - establishes that the variable is still unset (nil) and the "already set" branch of that test leaves the loop
//     (duplicates are rejected; "first one wins and the loop goes on" is as order dependent as "last one wins"),
//
// or when the map has at most one entry. Constants and loop-invariant values (found = true) are not overwrites of this
// kind, accumulations (n = n + 1, s = append(s, k)) are the business of checkLoopAccumulation.
func (c *Ctx) checkLastWriter(rule string, m *core.Module, l *mapLoop, base, pos string) {
	if !l.hasBackEdge {
		return
	}
	if singleEntryMap(l) {
		// the loop header is reached only where len(the very map value that is ranged over) == 1: one iteration, no order
		return
	}
	keys := loopKeys(l)
	idx := 0
	for _, in := range l.header.Instrs {
		phi, ok := in.(*ssa.Phi)
		if !ok {
			continue
		}
		type writer struct {
			v    ssa.Value
			from *ssa.BasicBlock
		}
		var writers []writer
		seen := map[*ssa.Phi]bool{phi: true}
		var collect func(p *ssa.Phi, onlyBack bool)
		collect = func(p *ssa.Phi, onlyBack bool) {
			for i, e := range p.Edges {
				pred := p.Block().Preds[i]
				if onlyBack && !l.blocks[pred] {
					continue
				}
				if e == ssa.Value(phi) {
					continue
				}
				if inner, ok := e.(*ssa.Phi); ok && l.blocks[inner.Block()] {
					if !seen[inner] {
						seen[inner] = true
						collect(inner, false)
					}
					continue
				}
				writers = append(writers, writer{e, pred})
			}
		}
		collect(phi, true)
		for _, w := range writers {
			if _, isConst := w.v.(*ssa.Const); isConst {
				continue
			}
			def, ok := w.v.(ssa.Instruction)
			if !ok || !l.blocks[def.Block()] {
				continue // loop invariant
			}
			if dependsOn(w.v, phi, l, 0) {
				continue // computed from the previous value: an accumulation
			}
			// `firstErr = f(entry); if firstErr != nil { break }`: the loop goes on only with nil in the variable, so what it
			// holds afterwards is the error of the entry the loop was left at - the early `return err` written with a
			// result variable (which entry that is, of several failing ones, is the error idiom's business, not this rule's)
			if core.IsErrorType(w.v.Type()) {
				onlyNil := false
				for _, cond := range append(core.CondsAt(w.from), core.EdgeConds(w.from, l.header)...) {
					if x, neq, isNil := core.NilCmp(cond.V); isNil && neq != cond.True && x == w.v {
						onlyNil = true
					}
				}
				if onlyNil {
					continue
				}
			}
			idx++
			k := key2(base, sprintf("loop-carried variable #%d overwritten with a value of the current entry", idx))
			p := m.InstrPos(def)
			if c.lenAtMostOne(m, l) {
				c.R.Ok(rule, k, p, "overwrite of a loop-carried variable", "the map has at most one entry here")
				continue
			}
			derived := func(v ssa.Value) bool {
				for i := 0; i < 4; i++ {
					if v == ssa.Value(phi) {
						return true
					}
					switch x := v.(type) {
					case *ssa.UnOp:
						v = x.X
					case *ssa.Convert:
						v = x.X
					case *ssa.ChangeType:
						v = x.X
					default:
						return false
					}
				}
				return false
			}
			isOrd := func(v ssa.Value) bool {
				for {
					u, ok := v.(*ssa.UnOp)
					if !ok || u.Op != token.NOT {
						break
					}
					v = u.X
				}
				bo, ok := v.(*ssa.BinOp)
				if !ok {
					return false
				}
				switch bo.Op {
				case token.LSS, token.GTR, token.LEQ, token.GEQ:
					return (derived(bo.X) && keys[bo.Y]) || (derived(bo.Y) && keys[bo.X])
				}
				return false
			}
			// the variable starts unset: its value on entry to the loop is the nil / zero constant
			startsUnset := true
			for i, e := range phi.Edges {
				if l.blocks[phi.Block().Preds[i]] {
					continue
				}
				cst, ok := e.(*ssa.Const)
				if !ok || !(cst.IsNil() || cst.Value == nil || (cst.Value.Kind() == constant.Int && constant.Sign(cst.Value) == 0) || (cst.Value.Kind() == constant.String && constant.StringVal(cst.Value) == "")) {
					startsUnset = false
				}
			}
			// isSetFlag: a bool carried round the loop that is false on entry and, inside the loop, only ever set to true in a
			// block that also writes the variable
			isSetFlag := func(fl *ssa.Phi) bool {
				ok := true
				seen := map[*ssa.Phi]bool{}
				var walk func(q *ssa.Phi)
				walk = func(q *ssa.Phi) {
					if seen[q] {
						return
					}
					seen[q] = true
					for i, e := range q.Edges {
						pred := q.Block().Preds[i]
						if q == fl && !l.blocks[pred] {
							if cst, isC := e.(*ssa.Const); !isC || cst.Value == nil || cst.Value.Kind() != constant.Bool || constant.BoolVal(cst.Value) {
								ok = false
							}
							continue
						}
						switch x := e.(type) {
						case *ssa.Phi:
							if l.blocks[x.Block()] {
								walk(x)
							} else {
								ok = false
							}
						case *ssa.Const:
							if x.Value == nil || x.Value.Kind() != constant.Bool || !constant.BoolVal(x.Value) {
								ok = false
								break
							}
							writes := false
							for _, w2 := range writers {
								if w2.from == pred {
									if _, isC := w2.v.(*ssa.Const); !isC {
										writes = true
									}
								}
							}
							if !writes {
								ok = false
							}
						default:
							ok = false
						}
					}
				}
				walk(fl)
				return ok
			}
			usedOrd, usedUnset, usedEq := false, false, false
			est := func(cond core.Cond) bool {
				ifb := condBlock(cond)
				if ifb == nil || !l.blocks[ifb] {
					return false
				}
				if isOrd(cond.V) {
					usedOrd = true
					return true
				}
				// `found` kept beside the variable: a loop-carried flag that is false on entry and set only where the variable is
				// written says the same as "the variable is still unset"
				if fl, isPhi := cond.V.(*ssa.Phi); isPhi && !cond.True && fl != phi && fl.Block() == l.header && isSetFlag(fl) {
					other := ifb.Succs[0]
					leaves := other != l.header && !blockReaches(other, l.header, nil)
					toOrd := false
					if len(other.Instrs) > 0 {
						if ifi, ok := other.Instrs[len(other.Instrs)-1].(*ssa.If); ok && isOrd(ifi.Cond) {
							toOrd = true
						}
					}
					if leaves || toOrd {
						usedUnset = true
						return true
					}
				}
				if x, neq, ok := unsetCmp(cond.V); ok && startsUnset && derived(x) && cond.True != neq {
					// the variable is unset on this edge; the already-set edge must leave the loop (duplicates rejected)
					// or lead straight to the ordered comparison of an `unset || key < variable` disjunction
					other := ifb.Succs[0]
					if cond.True {
						other = ifb.Succs[1]
					}
					leaves := other != l.header && !blockReaches(other, l.header, nil)
					toOrd := false
					if len(other.Instrs) > 0 {
						if ifi, ok := other.Instrs[len(other.Instrs)-1].(*ssa.If); ok && isOrd(ifi.Cond) {
							toOrd = true
						}
					}
					// or to an equality test of the variable with the value it would have received, whose mismatch edge
					// leaves the loop: "remember the first, require all others to be equal" ends with the same value
					// whichever entry came first
					toEq := false
					if len(other.Instrs) > 0 {
						if ifi, ok := other.Instrs[len(other.Instrs)-1].(*ssa.If); ok {
							if bo, ok := ifi.Cond.(*ssa.BinOp); ok && (bo.Op == token.NEQ || bo.Op == token.EQL) &&
								((derived(bo.X) && bo.Y == w.v) || (derived(bo.Y) && bo.X == w.v)) {
								mismatch := other.Succs[0]
								if bo.Op == token.EQL {
									mismatch = other.Succs[1]
								}
								if mismatch != l.header && !blockReaches(mismatch, l.header, nil) {
									toEq = true
								}
							}
						}
					}
					if toEq {
						usedEq = true
					}
					if leaves || toOrd || toEq {
						usedUnset = true
						return true
					}
				}
				return false
			}
			holds := core.MustHold(l.fn, est)[w.from]
			ordered := holds && usedOrd
			anyUnset, unsetRejects := usedUnset, true
			switch {
			case holds && ordered:
				c.R.Ok(rule, k, p, "overwrite of a loop-carried variable", "on every path to the overwrite the variable is unset or the loop's key is compared with it by an order: the minimum / maximum key is selected, whatever the visiting order")
			case holds && usedEq:
				c.R.Ok(rule, k, p, "overwrite of a loop-carried variable", "set once while unset; every later entry is compared with it for equality and a mismatch leaves the loop: all entries agree on the value, whichever came first")
			case holds && anyUnset && unsetRejects:
				c.R.Ok(rule, k, p, "overwrite of a loop-carried variable", "only reached while the variable is unset, and the already-set branch leaves the loop: a second matching entry is rejected")
			default:
				c.R.Bad(rule, k, p, "a variable that outlives the iteration is overwritten with a value of the current map entry",
					"when several entries satisfy the condition the one visited last (or first) wins: the result depends on the map's iteration order and differs between runs")
			}
		}
	}
}

// unsetCmp decodes `x == nil` / `x != nil` and `x == 0` / `x != 0` (zero value of a basic type): tests of a variable
// against its initial, unset value.
func unsetCmp(v ssa.Value) (x ssa.Value, neq bool, ok bool) {
	if x, neq, ok := core.NilCmp(v); ok {
		return x, neq, true
	}
	bo, isBin := v.(*ssa.BinOp)
	if !isBin || (bo.Op != token.EQL && bo.Op != token.NEQ) {
		return nil, false, false
	}
	isZero := func(v ssa.Value) bool {
		c, ok := v.(*ssa.Const)
		if !ok || c.Value == nil {
			return false
		}
		switch c.Value.Kind() {
		case constant.Int:
			n, exact := constant.Int64Val(c.Value)
			return exact && n == 0
		case constant.String:
			return constant.StringVal(c.Value) == ""
		}
		return false
	}
	switch {
	case isZero(bo.Y):
		return bo.X, bo.Op == token.NEQ, true
	case isZero(bo.X):
		return bo.Y, bo.Op == token.NEQ, true
	}
	return nil, false, false
}

// condBlock: the block whose If carries the condition.
func condBlock(cond core.Cond) *ssa.BasicBlock {
	if cond.V.Referrers() == nil {
		return nil
	}
	for _, r := range *cond.V.Referrers() {
		if ifi, ok := r.(*ssa.If); ok {
			return ifi.Block()
		}
	}
	// negated condition: the If refers to the UnOp NOT of it
	for _, r := range *cond.V.Referrers() {
		if u, ok := r.(*ssa.UnOp); ok && u.Op == token.NOT && u.Referrers() != nil {
			for _, r2 := range *u.Referrers() {
				if ifi, ok := r2.(*ssa.If); ok {
					return ifi.Block()
				}
			}
		}
	}
	return nil
}

// dependsOn: v is computed (within the loop) from target.
func dependsOn(v ssa.Value, target ssa.Value, l *mapLoop, depth int) bool {
	if v == target {
		return true
	}
	if depth > 6 {
		return false
	}
	in, ok := v.(ssa.Instruction)
	if !ok || !l.blocks[in.Block()] {
		return false
	}
	if _, isPhi := v.(*ssa.Phi); isPhi && depth > 0 {
		// inner merges are followed, the header's own phis are not
		if in.Block() == l.header {
			return false
		}
	}
	for _, op := range in.Operands(nil) {
		if *op != nil && dependsOn(*op, target, l, depth+1) {
			return true
		}
	}
	return false
}

// appendsToLoopCarried: the slice v that an append inside loop l extends depends on an earlier iteration: it is, or is
// sliced from, a phi of the loop, the result of another append in the loop, or a local variable stored in the loop.
// Values defined outside the loop (parameters, slices of them) are not.
func appendsToLoopCarried(v ssa.Value, l *mapLoop, depth int) bool {
	if depth > 6 {
		return true // not followed any further: stay on the safe side
	}
	switch x := v.(type) {
	case *ssa.Phi:
		return x.Block() == l.header || l.blocks[x.Block()]
	case *ssa.Slice:
		return appendsToLoopCarried(x.X, l, depth+1)
	case *ssa.Call:
		if bi, ok := x.Call.Value.(*ssa.Builtin); ok && bi.Name() == "append" {
			if l.blocks[x.Block()] {
				return appendsToLoopCarried(x.Call.Args[0], l, depth+1)
			}
			return false
		}
		return l.blocks[x.Block()]
	case *ssa.UnOp:
		if al, ok := x.X.(*ssa.Alloc); ok {
			for _, r := range *al.Referrers() {
				if st, ok := r.(*ssa.Store); ok && l.blocks[st.Block()] {
					return true
				}
			}
			return false
		}
		if in, ok := v.(ssa.Instruction); ok {
			return l.blocks[in.Block()]
		}
	case *ssa.Parameter, *ssa.Const, *ssa.FreeVar, *ssa.Global:
		return false
	case *ssa.MakeSlice, *ssa.Alloc:
		return false // made anew where it stands
	}
	return true // a form that is not followed: stay on the safe side
}
