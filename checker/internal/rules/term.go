package rules

import (
	"go/token"
	"go/types"
	"os"
	"sort"
	"strings"

	"golang.org/x/tools/go/ssa"

	"verifcheck/internal/core"
)

// R-TERM: no unbounded recursion through a reference cycle.
//
// The schema graph is a finite tree except for RefSchema -> referencedObjectCache (and GetObject()), which may close a
// cycle (recursive references are legal). A call chain can therefore only be infinite if it passes through that
// dereference infinitely often, and it is bounded iff the data it is driven by strictly shrinks on the way round.
// The rule builds the call graph over everything reachable from the data API and labels each call edge by what it
// does to the data arguments (values whose static type is not a schema type):
//   DESC   some data argument is, on every path, a strict component of a parameter of the caller (an element / key /
//          field obtained by reflect Index / MapIndex / MapKeys / Field, a map lookup, a range variable);
//   SAME   a data argument is a parameter of the caller passed on unchanged (or a same-level copy);
//   OTHER  the data handed on is not derived from the caller's input (a default, a value computed from the schema).
// Violations:
//   class B  a cycle of SAME edges through a reference dereference: the same input goes round for ever;
//   class A  an OTHER edge that lies on a cycle of non-DESC edges through a reference dereference: the recursion is
//            driven by the schema (which is cyclic there), not by the input.
// Each reference dereference call site is an obligation too (discharged when it lies on no non-descending cycle).
// Not decided: descent on the correct thread when a function has several data parameters (any descending data
// argument counts), recursion through user callbacks, and loops.

type tlabel struct {
	param int   // parameter index of the enclosing function; -1 = not derived from a parameter
	kind  uint8 // 1 SAME, 2 SUB
}

const (
	kSame uint8 = 1
	kSub  uint8 = 2
)

type labelSet map[tlabel]bool

func (s labelSet) add(o labelSet) bool {
	ch := false
	for l := range o {
		if !s[l] {
			s[l] = true
			ch = true
		}
	}
	return ch
}

func (s labelSet) demote() labelSet {
	out := labelSet{}
	for l := range s {
		if l.param < 0 {
			out[l] = true
		} else {
			out[tlabel{l.param, kSub}] = true
		}
	}
	return out
}

var other = labelSet{tlabel{-1, 0}: true}

// isSchemaType: a type declared in the SDK (schema values); everything else (any, reflect.Value, builtin containers,
// basic types) is data.
func (c *Ctx) isSDKType(t types.Type) bool {
	for {
		if p, ok := t.(*types.Pointer); ok {
			t = p.Elem()
			continue
		}
		break
	}
	switch x := t.(type) {
	case *types.Named:
		if x.Obj().Pkg() == nil {
			return false
		}
		for _, p := range c.M.Types {
			if p == x.Obj().Pkg() {
				return true
			}
		}
		return false
	case *types.TypeParam:
		// type parameters of the SDK are constrained by schema interfaces or by scalar sets
		if it, ok := x.Constraint().Underlying().(*types.Interface); ok && it.NumMethods() > 0 {
			return true
		}
		return false
	case *types.Map:
		return c.isSDKType(x.Elem())
	case *types.Slice:
		return c.isSDKType(x.Elem())
	}
	return false
}

var reflectIdentity = map[string]bool{
	"reflect.ValueOf": true, "reflect.Indirect": true, "(reflect.Value).Interface": true, "(reflect.Value).Convert": true,
	"(reflect.Value).Elem": true, "(reflect.Value).Addr": true, "(reflect.Value).MapRange": true, "maps.Clone": true,
}
var reflectProject = map[string]bool{
	"(reflect.Value).Index": true, "(reflect.Value).MapIndex": true, "(reflect.Value).MapKeys": true, "(reflect.Value).Field": true,
	"(reflect.Value).FieldByName": true, "(reflect.Value).FieldByIndex": true, "(reflect.Value).FieldByIndexErr": true, "(*reflect.MapIter).Key": true, "(*reflect.MapIter).Value": true,
}

// termSum: what a function does with its inputs, relative to its parameters (index i) and free variables (1000+i).
type termSum struct {
	L       map[ssa.Value]labelSet
	ret     map[int]labelSet // result index -> labels
	effects map[int]labelSet // free variable index -> labels of the values stored through it
}

func (c *Ctx) termSummary(fn *ssa.Function) *termSum {
	if c.termCache == nil {
		c.termCache = map[*ssa.Function]*termSum{}
	}
	if s, ok := c.termCache[fn]; ok {
		if s == nil {
			return &termSum{} // in progress (recursion): nothing known yet
		}
		return s
	}
	c.termCache[fn] = nil
	s := c.termLabels(fn)
	c.termCache[fn] = s
	return s
}

// labelsOf computes the labels of every value of fn relative to fn's parameters.
func (c *Ctx) termLabels(fn *ssa.Function) *termSum {
	L := map[ssa.Value]labelSet{}
	sum := &termSum{L: L, ret: map[int]labelSet{}, effects: map[int]labelSet{}}
	for i, fv := range fn.FreeVars {
		L[fv] = labelSet{tlabel{1000 + i, kSame}: true}
	}
	fvIndex := func(v ssa.Value) int {
		for i, fv := range fn.FreeVars {
			if ssa.Value(fv) == v {
				return i
			}
		}
		return -1
	}
	get := func(v ssa.Value) labelSet {
		if s, ok := L[v]; ok {
			return s
		}
		return nil
	}
	for i, p := range fn.Params {
		L[p] = labelSet{tlabel{i, kSame}: true}
	}
	// content labels of local containers (allocs, fresh maps / slices)
	content := map[ssa.Value]labelSet{}
	// "not derived from a parameter" is only concluded once the derived labels have converged (final pass); otherwise
	// an operand that simply has not been visited yet would be taken for foreign data and, labels being monotone, stay so
	final := false
	valOrOther := func(v ssa.Value) labelSet {
		if cst, ok := v.(*ssa.Const); ok && cst.Value == nil {
			return labelSet{}
		}
		if s := get(v); len(s) > 0 {
			return s
		}
		if !final {
			return nil
		}
		return other
	}
	containerOf := func(addr ssa.Value) ssa.Value {
		for {
			switch x := addr.(type) {
			case *ssa.IndexAddr:
				addr = x.X
				continue
			case *ssa.FieldAddr:
				addr = x.X
				continue
			case *ssa.Slice:
				addr = x.X
				continue
			}
			return addr
		}
	}
	isFresh := func(v ssa.Value) bool {
		switch v.(type) {
		case *ssa.Alloc, *ssa.MakeMap, *ssa.MakeSlice:
			return true
		}
		return false
	}
	for iter := 0; iter < 40; iter++ {
		changed := false
		upd := func(v ssa.Value, s labelSet) {
			if len(s) == 0 {
				return
			}
			if L[v] == nil {
				L[v] = labelSet{}
			}
			if L[v].add(s) {
				changed = true
			}
		}
		updC := func(v ssa.Value, s labelSet) {
			if len(s) == 0 {
				return
			}
			if content[v] == nil {
				content[v] = labelSet{}
			}
			if content[v].add(s) {
				changed = true
			}
		}
		for _, b := range fn.Blocks {
			for _, in := range b.Instrs {
				switch x := in.(type) {
				case *ssa.Store:
					base := containerOf(x.Addr)
					if isFresh(base) {
						updC(base, valOrOther(x.Val))
					}
					if k := fvIndex(x.Addr); k >= 0 {
						if sum.effects[k] == nil {
							sum.effects[k] = labelSet{}
						}
						if sum.effects[k].add(valOrOther(x.Val)) {
							changed = true
						}
					}
				case *ssa.MapUpdate:
					if isFresh(x.Map) {
						updC(x.Map, valOrOther(x.Value))
					}
				case *ssa.ChangeType:
					upd(x, get(x.X))
				case *ssa.ChangeInterface:
					upd(x, get(x.X))
				case *ssa.MakeInterface:
					upd(x, get(x.X))
				case *ssa.Convert:
					upd(x, get(x.X))
				case *ssa.TypeAssert:
					upd(x, get(x.X))
				case *ssa.Slice:
					upd(x, get(x.X))
				case *ssa.Phi:
					for _, e := range x.Edges {
						upd(x, valOrOther(e))
					}
				case *ssa.Extract:
					switch t := x.Tuple.(type) {
					case *ssa.Next:
						// t.Iter is a Range
						if rg, ok := t.Iter.(*ssa.Range); ok && x.Index > 0 {
							if isFresh(rg.X) {
								if x.Index == 2 {
									upd(x, content[rg.X])
								}
							} else {
								upd(x, get(rg.X).demote())
							}
						}
					case *ssa.TypeAssert, *ssa.Lookup, *ssa.UnOp:
						if x.Index == 0 {
							upd(x, get(t))
						}
					case *ssa.Call:
						upd(x, c.termCallResult(t, x.Index, get, content))
					}
				case *ssa.UnOp:
					if x.Op != token.MUL {
						break
					}
					base := containerOf(x.X)
					if fvIndex(x.X) >= 0 {
						upd(x, get(x.X)) // the cell of a captured variable: reading it is the variable itself
					} else if isFresh(base) {
						upd(x, content[base])
					} else if base != x.X {
						upd(x, get(base).demote())
					} else {
						upd(x, get(x.X).demote())
					}
				case *ssa.Lookup:
					if isFresh(x.X) {
						upd(x, content[x.X])
					} else {
						upd(x, get(x.X).demote())
					}
				case *ssa.Index:
					upd(x, get(x.X).demote())
				case *ssa.Field:
					upd(x, get(x.X).demote())
				case *ssa.FieldAddr:
					upd(x, get(x.X))
				case *ssa.IndexAddr:
					if !isFresh(containerOf(x.X)) {
						upd(x, get(x.X))
					}
				case *ssa.Call:
					upd(x, c.termCallResult(x, 0, get, content))
					c.termClosureEffects(&x.Call, get, content, updC)
				case *ssa.Defer:
					c.termClosureEffects(&x.Call, get, content, updC)
				}
			}
		}
		// a fresh container all of whose contents are components of one parameter is a same-level copy of it
		for cont, cl := range content {
			if _, isAlloc := cont.(*ssa.Alloc); isAlloc {
				// the address of a local cell stands for what the cell holds (returned / passed pointers to locals)
				upd(cont, cl)
				continue
			}
			s := labelSet{}
			for l := range cl {
				if l.param < 0 {
					s[l] = true
				} else {
					s[tlabel{l.param, kSame}] = true
				}
			}
			upd(cont, s)
		}
		// results
		rei := core.ErrorResultIndex(fn.Signature)
		for _, ret := range core.ReturnsOf(fn) {
			if rei >= 0 && c.M.RetNonNil(ret, rei) {
				continue // the other results of an error return are never used as data
			}
			for i := range ret.Results {
				v := core.RetVal(ret, i)
				if v == nil {
					continue
				}
				if sum.ret[i] == nil {
					sum.ret[i] = labelSet{}
				}
				if sum.ret[i].add(valOrOther(v)) {
					changed = true
				}
			}
		}
		if !changed {
			if !final {
				final = true
				continue
			}
			break
		}
	}
	return sum
}

// compose translates callee-relative labels into the caller's frame.
func termCompose(callee labelSet, arg func(i int) labelSet) labelSet {
	out := labelSet{}
	for l := range callee {
		if l.param < 0 {
			out[l] = true
			continue
		}
		src := arg(l.param)
		if len(src) == 0 {
			out[tlabel{-1, 0}] = true
			continue
		}
		if l.kind == kSub {
			src = src.demote()
		}
		out.add(src)
	}
	return out
}

func (c *Ctx) termArgFn(cc *ssa.CallCommon, get func(ssa.Value) labelSet, content map[ssa.Value]labelSet) func(i int) labelSet {
	return func(i int) labelSet {
		if i >= 1000 {
			mc, ok := cc.Value.(*ssa.MakeClosure)
			if !ok || i-1000 >= len(mc.Bindings) {
				return nil
			}
			b := mc.Bindings[i-1000]
			if _, isAlloc := b.(*ssa.Alloc); isAlloc {
				return content[b]
			}
			return get(b)
		}
		if cc.IsInvoke() {
			if i == 0 {
				return get(cc.Value)
			}
			i--
		}
		if i < len(cc.Args) {
			return get(cc.Args[i])
		}
		return nil
	}
}

// termClosureEffects: an immediately invoked (or deferred) closure stores into captured variables of the caller.
func (c *Ctx) termClosureEffects(cc *ssa.CallCommon, get func(ssa.Value) labelSet, content map[ssa.Value]labelSet, updC func(ssa.Value, labelSet)) {
	mc, ok := cc.Value.(*ssa.MakeClosure)
	if !ok {
		return
	}
	cf, ok := mc.Fn.(*ssa.Function)
	if !ok {
		return
	}
	sum := c.termSummary(cf)
	for k, ls := range sum.effects {
		if k < len(mc.Bindings) {
			if _, isAlloc := mc.Bindings[k].(*ssa.Alloc); isAlloc {
				updC(mc.Bindings[k], termCompose(ls, c.termArgFn(cc, get, content)))
			}
		}
	}
}

func (c *Ctx) termCallResult(call *ssa.Call, idx int, get func(ssa.Value) labelSet, content map[ssa.Value]labelSet) labelSet {
	name := core.StaticCalleeName(&call.Call)
	if len(call.Call.Args) > 0 {
		if reflectIdentity[name] {
			return get(call.Call.Args[0])
		}
		if reflectProject[name] {
			return get(call.Call.Args[0]).demote()
		}
	}
	// repo callees resolved statically: compose their return summary
	if call.Call.IsInvoke() {
		return nil
	}
	var callee *ssa.Function
	switch v := call.Call.Value.(type) {
	case *ssa.Function:
		callee = c.M.Source(v)
	case *ssa.MakeClosure:
		callee, _ = v.Fn.(*ssa.Function)
	}
	if callee == nil || len(callee.Blocks) == 0 {
		return nil
	}
	if _, isRepo := c.M.FuncByKey[c.M.Key(callee)]; !isRepo && callee.Parent() == nil {
		return nil
	}
	sum := c.termSummary(callee)
	if sum.ret == nil || sum.ret[idx] == nil {
		return nil
	}
	return termCompose(sum.ret[idx], c.termArgFn(&call.Call, get, content))
}

type termEdge struct {
	from, to *ssa.Function
	site     ssa.CallInstruction
	class    string // "DESC", "SAME", "OTHER"
	isRef    bool
	desc     string
	// schemaMode: a value the caller received as data (static type any) is handed on under an SDK schema type: the
	// caller has recognised its input as a schema (schema-mode ValidateCompatibility); what happens below compares two
	// schemas and is not a data operation
	schemaMode bool
}

// refDerived: the values of fn that are, or are obtained from, the object behind a reference: a load of
// RefSchema.referencedObjectCache, the result of GetObject(), and everything projected out of those (method results
// on them, range variables over those results, lookups, conversions).
func (c *Ctx) refDerived(fn *ssa.Function) map[ssa.Value]bool {
	if c.refDerivedMemo == nil {
		c.refDerivedMemo = map[*ssa.Function]map[ssa.Value]bool{}
	}
	if R, done := c.refDerivedMemo[fn]; done {
		return R // (nil while in progress: a recursive worker learns nothing from its own call)
	}
	c.refDerivedMemo[fn] = nil
	R := map[ssa.Value]bool{}
	// a parameter of an unexported function that some caller fills with (a part of) the object behind a reference: the
	// dereference was made by the caller, the function works on its result
	for i, p := range fn.Params {
		for _, call := range core.PlainSites(fn) {
			if i < len(call.Call.Args) && call.Parent() != fn {
				if c.refDerived(call.Parent())[call.Call.Args[i]] {
					R[p] = true
				}
			}
		}
	}
	defer func() { c.refDerivedMemo[fn] = R }()
	for changed := true; changed; {
		changed = false
		set := func(v ssa.Value) {
			if !R[v] {
				R[v] = true
				changed = true
			}
		}
		for _, b := range fn.Blocks {
			for _, in := range b.Instrs {
				switch x := in.(type) {
				case *ssa.UnOp:
					if x.Op != token.MUL {
						break
					}
					if fa, ok := x.X.(*ssa.FieldAddr); ok {
						st, _ := derefType(fa.X.Type()).Underlying().(*types.Struct)
						if st != nil && st.Field(fa.Field).Name() == "referencedObjectCache" {
							set(x)
						}
					}
					if R[x.X] {
						set(x)
					}
				case *ssa.Call:
					if x.Call.IsInvoke() {
						if x.Call.Method.Name() == "GetObject" || R[x.Call.Value] {
							set(x)
						}
					} else if n := core.StaticCalleeName(&x.Call); strings.HasSuffix(n, ".GetObject") || (len(x.Call.Args) > 0 && R[x.Call.Args[0]] && x.Call.Signature().Recv() != nil) {
						set(x)
					}
				case *ssa.Extract:
					if R[x.Tuple] {
						set(x)
					}
				case *ssa.Range:
					if R[x.X] {
						set(x)
					}
				case *ssa.Next:
					if R[x.Iter] {
						set(x)
					}
				case *ssa.Lookup:
					if R[x.X] {
						set(x)
					}
				case *ssa.Index:
					if R[x.X] {
						set(x)
					}
				case *ssa.IndexAddr:
					if R[x.X] {
						set(x)
					}
				case *ssa.Field:
					if R[x.X] {
						set(x)
					}
				case *ssa.FieldAddr:
					if R[x.X] {
						set(x)
					}
				case *ssa.MakeInterface:
					if R[x.X] {
						set(x)
					}
				case *ssa.ChangeInterface:
					if R[x.X] {
						set(x)
					}
				case *ssa.ChangeType:
					if R[x.X] {
						set(x)
					}
				case *ssa.TypeAssert:
					if R[x.X] {
						set(x)
					}
				case *ssa.Phi:
					for _, e := range x.Edges {
						if R[e] {
							set(x)
						}
					}
				}
			}
		}
	}
	return R
}

// isRefDeref: the call is made on, or hands on, (a part of) the object behind a reference.
func (c *Ctx) isRefDeref(R map[ssa.Value]bool, cc *ssa.CallCommon) bool {
	if cc.IsInvoke() && R[cc.Value] {
		return true
	}
	for _, a := range cc.Args {
		if R[a] && c.isSDKValue(a) {
			return true
		}
	}
	return false
}

func (c *Ctx) termEdges(fns map[*ssa.Function]bool) []termEdge {
	var out []termEdge
	for _, fn := range c.M.SortedFuncs(fns) {
		L := c.termSummary(fn).L
		R := c.refDerived(fn)
		for _, b := range fn.Blocks {
			for _, in := range b.Instrs {
				ci, ok := in.(ssa.CallInstruction)
				if !ok {
					continue
				}
				if _, isGo := in.(*ssa.Go); isGo {
					continue
				}
				cc := ci.Common()
				callees := c.refineByFailedAssert(ci, c.refineByFieldStores(cc, c.M.Callees(cc)))
				if len(callees) == 0 {
					continue
				}
				class := "OTHER"
				var why []string
				hasSame := false
				schemaMode := false
				// an argument that is the caller's data on one path and a schema taken out of it on another (`if other, ok
				// := typeOrData.(*RefSchema); ok { typeOrData = other.object }`) makes the call both: it is entered into the
				// data-mode and into the schema-mode analysis
				mixedMode := false
				for _, a := range cc.Args {
					if phi, isPhi := a.(*ssa.Phi); isPhi && !c.isSDKValue(a) {
						sdk, data := false, false
						for _, pe := range phi.Edges {
							if c.isSDKValue(pe) {
								sdk = true
							} else {
								data = true
							}
						}
						if sdk && data {
							mixedMode = true
						}
					}
				}
				for _, a := range cc.Args {
					if c.isSDKValue(a) {
						for l := range L[a] {
							if l.param >= 0 && l.param < len(fn.Params) && !c.isSDKType(fn.Params[l.param].Type()) {
								schemaMode = true
							}
						}
						continue
					}
					if cst, ok := a.(*ssa.Const); ok {
						_ = cst
						continue
					}
					// only threads that start at a data-typed parameter count
					s := labelSet{}
					for l := range L[a] {
						if l.param >= 0 && l.param < len(fn.Params) && c.isSDKType(fn.Params[l.param].Type()) {
							s[tlabel{-1, 0}] = true
						} else {
							s[l] = true
						}
					}
					if len(s) == 0 {
						continue
					}
					allSub, anySame := true, false
					for l := range s {
						if l.param < 0 || l.kind != kSub {
							allSub = false
						}
						if l.param >= 0 && l.kind == kSame {
							anySame = true
						}
					}
					if allSub {
						class = "DESC"
						why = []string{c.stable(fn, c.M.ValPath(a)) + " is a strict component of the input"}
						break
					}
					if anySame {
						hasSame = true
						why = append(why, c.stable(fn, c.M.ValPath(a))+" is the caller's input unchanged")
					} else {
						why = append(why, c.stable(fn, c.M.ValPath(a))+" is not (only) derived from the caller's input")
					}
				}
				if class != "DESC" && hasSame {
					class = "SAME"
				}
				isRef := c.isRefDeref(R, cc)
				for _, g := range callees {
					if !fns[g] {
						continue
					}
					out = append(out, termEdge{fn, g, ci, class, isRef, strings.Join(why, "; "), schemaMode})
					if mixedMode && !schemaMode {
						out = append(out, termEdge{fn, g, ci, "OTHER", isRef, "a schema taken out of the caller's input on one path", true})
					}
				}
			}
		}
	}
	return out
}

// ruleTerm: schemaMode=false decides the data operations (edges below a schema-mode hand-over are cut off);
// schemaMode=true decides schema-versus-schema comparison, where the "data" is itself a possibly cyclic schema, so no
// descent on it is well-founded: every cycle through a reference dereference below a schema-mode hand-over is unbounded.
func (c *Ctx) ruleTerm(rule string, roots []*ssa.Function, schemaMode bool) {
	fns := c.M.Reachable(roots, nil)
	all := c.termEdges(fns)
	// functions reachable from the roots without crossing a schema-mode hand-over
	dataFns := map[*ssa.Function]bool{}
	{
		work := append([]*ssa.Function{}, roots...)
		for _, r := range roots {
			dataFns[r] = true
		}
		out := map[*ssa.Function][]termEdge{}
		for _, e := range all {
			out[e.from] = append(out[e.from], e)
		}
		for len(work) > 0 {
			f := work[len(work)-1]
			work = work[:len(work)-1]
			for _, e := range out[f] {
				if !e.schemaMode && !dataFns[e.to] {
					dataFns[e.to] = true
					work = append(work, e.to)
				}
			}
		}
	}
	if schemaMode {
		c.ruleTermSchemaMode(rule, all, fns)
		return
	}
	var edges []termEdge
	for _, e := range all {
		if dataFns[e.from] && !e.schemaMode {
			edges = append(edges, e)
		}
	}
	adj := func(keep func(termEdge) bool) map[*ssa.Function][]termEdge {
		m := map[*ssa.Function][]termEdge{}
		for _, e := range edges {
			if keep(e) {
				m[e.from] = append(m[e.from], e)
			}
		}
		return m
	}
	nonDesc := adj(func(e termEdge) bool { return e.class != "DESC" })
	allEdges := adj(func(e termEdge) bool { return true })
	reachAllCache := map[*ssa.Function]map[*ssa.Function]bool{}
	sameOnly := adj(func(e termEdge) bool { return e.class == "SAME" })
	reach := func(g map[*ssa.Function][]termEdge, from *ssa.Function) map[*ssa.Function]bool {
		seen := map[*ssa.Function]bool{from: true}
		work := []*ssa.Function{from}
		for len(work) > 0 {
			f := work[len(work)-1]
			work = work[:len(work)-1]
			for _, e := range g[f] {
				if !seen[e.to] {
					seen[e.to] = true
					work = append(work, e.to)
				}
			}
		}
		return seen
	}
	reachCache := map[*ssa.Function]map[*ssa.Function]bool{}
	reachND := func(f *ssa.Function) map[*ssa.Function]bool {
		if r, ok := reachCache[f]; ok {
			return r
		}
		r := reach(nonDesc, f)
		reachCache[f] = r
		return r
	}
	reachAll := func(f *ssa.Function) map[*ssa.Function]bool {
		if r, ok := reachAllCache[f]; ok {
			return r
		}
		r := reach(allEdges, f)
		reachAllCache[f] = r
		return r
	}
	var refEdges []termEdge
	for _, e := range edges {
		if e.isRef {
			refEdges = append(refEdges, e)
		}
	}
	if os.Getenv("VERIF_DBG") != "" {
		for _, e := range edges {
			if strings.Contains(c.M.Key(e.from), os.Getenv("VERIF_DBG")) {
				println("EDGE", c.M.Key(e.from), "->", c.M.Key(e.to), e.class, e.isRef, e.desc)
			}
		}
	}
	nDesc, nSame, nOther := 0, 0, 0
	for _, e := range edges {
		switch e.class {
		case "DESC":
			nDesc++
		case "SAME":
			nSame++
		default:
			nOther++
		}
	}
	c.R.Note("%s: %d functions, %d call edges (%d descending, %d same-input, %d not input-driven), %d reference dereference edges", rule, len(fns), len(edges), nDesc, nSame, nOther, len(refEdges))

	// one obligation per reference-dereference call site
	seenSite := map[string]bool{}
	for _, re := range refEdges {
		k := key(rule, c.M.Key(re.from), "dereference -> "+re.to.Name()+": every cycle through it consumes input")
		if seenSite[k] {
			continue
		}
		seenSite[k] = true
		onCycle := re.class != "DESC" && reachND(re.to)[re.from]
		if !onCycle {
			how := "the dereferencing call itself hands on a strict component of the input"
			if re.class != "DESC" {
				how = "no chain of non-descending calls leads from " + c.M.Key(re.to) + " back to " + c.M.Key(re.from)
			}
			c.R.Ok(rule, k, c.M.InstrPos(re.site), "reference dereference (the only back edge of the schema graph)", how)
		} else {
			c.R.Info(rule, k, c.M.InstrPos(re.site), "reference dereference on a non-descending cycle", "the cycles are reported as class A / class B violations below")
		}
	}

	// class B: simple cycles of SAME edges through a reference dereference
	type cyc struct {
		names []string
		pos   string
	}
	found := map[string]cyc{}
	for _, re := range refEdges {
		if re.class != "SAME" {
			continue
		}
		// DFS from re.to back to re.from over SAME edges, bounded
		var path []*ssa.Function
		onPath := map[*ssa.Function]bool{}
		count := 0
		var dfs func(f *ssa.Function)
		dfs = func(f *ssa.Function) {
			if count > 400 || len(path) > 10 {
				return
			}
			path = append(path, f)
			onPath[f] = true
			defer func() { path = path[:len(path)-1]; delete(onPath, f) }()
			if f == re.from {
				count++
				var names []string
				for _, p := range path {
					names = append(names, c.M.Key(p))
				}
				// rotate to the smallest name for a canonical form
				mi := 0
				for i := range names {
					if names[i] < names[mi] {
						mi = i
					}
				}
				canon := append(append([]string{}, names[mi:]...), names[:mi]...)
				found[strings.Join(canon, " -> ")] = cyc{canon, c.M.InstrPos(re.site)}
				return
			}
			for _, e := range sameOnly[f] {
				if !onPath[e.to] {
					dfs(e.to)
				}
			}
		}
		dfs(re.to)
	}
	var cycKeys []string
	for k := range found {
		cycKeys = append(cycKeys, k)
	}
	sort.Strings(cycKeys)
	// keep only minimal cycles: drop a cycle whose function set strictly contains another reported cycle's set
	sets := map[string]map[string]bool{}
	for _, k := range cycKeys {
		s := map[string]bool{}
		for _, n := range found[k].names {
			s[n] = true
		}
		sets[k] = s
	}
	for _, k := range cycKeys {
		minimal := true
		for _, k2 := range cycKeys {
			if k2 == k || len(sets[k2]) >= len(sets[k]) {
				continue
			}
			sub := true
			for n := range sets[k2] {
				if !sets[k][n] {
					sub = false
					break
				}
			}
			if sub {
				minimal = false
				break
			}
		}
		if !minimal {
			continue
		}
		if why := c.chainGuarded(found[k].names, sameOnly); why != "" {
			c.R.Except(rule, key(rule, "class B", "same input around the reference cycle: "+k), found[k].pos,
				"recursion that hands the same input round a reference cycle", why)
			continue
		}
		c.R.Bad(rule, key(rule, "class B", "same input around the reference cycle: "+k), found[k].pos,
			"unbounded recursion: the same input is handed round a reference cycle",
			"every call on the cycle "+k+" passes its input on unchanged and the cycle goes through a reference dereference; on a recursive reference the call chain never ends (fatal stack overflow, not recoverable)")
	}

	// class A: OTHER edges on a non-descending cycle through a reference dereference
	seenA := map[string]bool{}
	for _, e := range edges {
		if e.class != "OTHER" {
			continue
		}
		bad := false
		var via termEdge
		for _, re := range refEdges {
			// cycle (over all edges: descending steps elsewhere do not help once the data is re-seeded here):
			// e.to ~> re.from -ref-> re.to ~> e.from
			if (e.to == re.from || reachAll(e.to)[re.from]) && (re.to == e.from || reachAll(re.to)[e.from]) {
				bad = true
				via = re
				break
			}
		}
		if !bad {
			continue
		}
		if e.from == e.to {
			// a self-recursion that keeps the list of what it has descended into, and returns where the next target is
			// already on it, is bounded by the number of targets, provided no other way leads back into the function
			confined := true
			for _, x := range allEdges[e.from] {
				if x.to != e.from && reachAll(x.to)[e.from] {
					confined = false
				}
			}
			if why := c.visitedPathGuard(e); why != "" && confined {
				k := key(rule, "class A", c.M.Key(e.from)+" -> "+c.M.Key(e.to)+" ("+e.desc+"): bounded by a visited path")
				if !seenA[k] {
					seenA[k] = true
					c.R.Ok(rule, k, c.M.InstrPos(e.site), "self-recursion through a reference cycle that is not driven by the input", why)
				}
				continue
			}
		}
		if why := c.feedersGuarded(e); why != "" {
			k := key(rule, "class A", c.M.Key(e.from)+" -> "+c.M.Key(e.to)+" ("+e.desc+"): every value of the schema that is fed in is examined first")
			if !seenA[k] {
				seenA[k] = true
				c.R.Except(rule, k, c.M.InstrPos(e.site), "recursion through a reference cycle that is re-seeded with values of the schema", why)
			}
			continue
		}
		k := key(rule, "class A", c.M.Key(e.from)+" -> "+c.M.Key(e.to)+" ("+e.desc+")"+c.entryGuards(edges, e))
		if seenA[k] {
			continue
		}
		seenA[k] = true
		c.R.Bad(rule, k, c.M.InstrPos(e.site), "recursion through a reference cycle that is not driven by the input",
			"the call "+c.M.Key(e.from)+" -> "+c.M.Key(e.to)+" hands on data that is not a strict component of the caller's input ("+e.desc+") and lies on a cycle of non-descending calls through the reference dereference in "+c.M.Key(via.from)+"; on a recursive reference the recursion is bounded by nothing")
	}
}

// chainGuarded (exception E-CHAINGUARD): a same-input cycle is entered only where a guard method of the same receiver
// has answered "the chain ends". Checked structurally: one call edge of the cycle is dominated by the false outcome
// of a call g(recv) with g a bool method of the receiver without data parameters, and g is a loop that keeps the
// objects it has passed in a slice, returns true where the next object is already in it, and appends it otherwise
// (so g itself terminates and answers true for every chain that comes back on itself); the next object is of an SDK
// type. NOT checked by the machine, confirmed by reading: that g walks the same chain the recursion follows (the only
// property's type, through references, inline objects and scopes). If the guard call is removed, moved behind the
// hand-over or replaced by a function of another shape, the exception does not apply and the cycle is a violation.
func (c *Ctx) chainGuarded(names []string, sameOnly map[*ssa.Function][]termEdge) string {
	onCycle := map[string]bool{}
	for _, n := range names {
		onCycle[n] = true
	}
	for fn, es := range sameOnly {
		if !onCycle[c.M.Key(fn)] || len(fn.Params) == 0 {
			continue
		}
		for _, e := range es {
			if !onCycle[c.M.Key(e.to)] {
				continue
			}
			for _, cond := range core.CondsAt(e.site.Block()) {
				call, ok := cond.V.(*ssa.Call)
				if !ok || cond.True {
					continue
				}
				g := call.Call.StaticCallee()
				if g == nil || len(call.Call.Args) != 1 || g.Signature.Results().Len() != 1 {
					continue
				}
				// called on the receiver - by the function itself, or by a predicate of the receiver whose outcome the
				// hand-over is made behind (`o.takesShorthand()`, which asks the guard)
				if c.M.CondPath(fn, cond, call.Call.Args[0]) != fn.Params[0].Name() {
					continue
				}
				if b, isBasic := g.Signature.Results().At(0).Type().Underlying().(*types.Basic); !isBasic || b.Kind() != types.Bool {
					continue
				}
				if c.loopVisitedGuard(g) {
					return "E-CHAINGUARD: the hand-over " + c.M.Key(fn) + " -> " + c.M.Key(e.to) + " is made only where " + c.M.Key(g) + "(receiver) returned false; that method walks with a list of the objects it has passed, answers true where the next one is already on the list and appends it otherwise. That it walks the chain the recursion follows is confirmed by reading, not by the checker"
				}
			}
		}
	}
	return ""
}

// loopVisitedGuard: g contains a scan of a loop-carried slice that returns true where an element equals an SDK-typed
// value X, and an append of X to that slice on the way round.
func (c *Ctx) loopVisitedGuard(g *ssa.Function) bool {
	for _, b := range g.Blocks {
		if len(b.Instrs) == 0 {
			continue
		}
		ifi, ok := b.Instrs[len(b.Instrs)-1].(*ssa.If)
		if !ok {
			continue
		}
		// the same scan written with the standard helper: `if slices.Contains(S, X) { return true }` with S loop-carried
		// and extended by X somewhere in g
		if cc, isCall := ifi.Cond.(*ssa.Call); isCall && strings.HasPrefix(core.StaticCalleeName(&cc.Call), "slices.Contains") && len(cc.Call.Args) == 2 && c.isSDKValue(cc.Call.Args[1]) {
			returnsTrue := false
			for _, in := range b.Succs[0].Instrs {
				if r, ok := in.(*ssa.Return); ok && len(r.Results) == 1 {
					if cst, ok := r.Results[0].(*ssa.Const); ok && cst.Value != nil && cst.Value.String() == "true" {
						returnsTrue = true
					}
				}
			}
			if _, isPhi := cc.Call.Args[0].(*ssa.Phi); isPhi && returnsTrue {
				for _, ob := range g.Blocks {
					for _, oin := range ob.Instrs {
						app, ok := oin.(*ssa.Call)
						if !ok {
							continue
						}
						bi, ok := app.Call.Value.(*ssa.Builtin)
						if !ok || bi.Name() != "append" || len(app.Call.Args) != 2 || app.Call.Args[0] != cc.Call.Args[0] {
							continue
						}
						for _, el := range variadicElems(app.Call.Args[1]) {
							if el == cc.Call.Args[1] {
								return true
							}
						}
					}
				}
			}
		}
		bin, ok := ifi.Cond.(*ssa.BinOp)
		if !ok || bin.Op != token.EQL {
			continue
		}
		for _, pr := range [][2]ssa.Value{{bin.X, bin.Y}, {bin.Y, bin.X}} {
			ld, ok := pr[0].(*ssa.UnOp)
			if !ok {
				continue
			}
			ia, ok := ld.X.(*ssa.IndexAddr)
			if !ok || !c.isSDKValue(pr[1]) {
				continue
			}
			// the match returns true
			returnsTrue := false
			for _, in := range b.Succs[0].Instrs {
				if r, ok := in.(*ssa.Return); ok && len(r.Results) == 1 {
					if cst, ok := r.Results[0].(*ssa.Const); ok && cst.Value != nil && cst.Value.String() == "true" {
						returnsTrue = true
					}
				}
			}
			if !returnsTrue {
				continue
			}
			// the scanned slice is loop-carried (a phi) and is extended by the same value somewhere in g
			if _, isPhi := ia.X.(*ssa.Phi); !isPhi {
				continue
			}
			for _, ob := range g.Blocks {
				for _, oin := range ob.Instrs {
					app, ok := oin.(*ssa.Call)
					if !ok {
						continue
					}
					bi, ok := app.Call.Value.(*ssa.Builtin)
					if !ok || bi.Name() != "append" || len(app.Call.Args) != 2 || app.Call.Args[0] != ia.X {
						continue
					}
					for _, el := range variadicElems(app.Call.Args[1]) {
						if el == pr[1] {
							return true
						}
					}
				}
			}
		}
	}
	return false
}

// visitedPathGuard: the recursive call e (a function calling itself) passes, for a slice parameter P, the slice
// append(S', X) where S' is a re-slice of S, S is P itself or P / a literal first element, and X is an SDK-typed value
// (an object of the schema: there are finitely many); and the call is only reached after a range loop over S has run
// to its end, every iteration of which returns where the element equals X. Every level therefore adds a target that
// was not on the path: the depth is bounded by the number of distinct targets.
func (c *Ctx) visitedPathGuard(e termEdge) string {
	fn := e.from
	call := e.site.Common()
	if len(call.Args) == 0 {
		return ""
	}
	for ai, a := range call.Args {
		if _, isSlice := a.Type().Underlying().(*types.Slice); !isSlice {
			continue
		}
		app, ok := a.(*ssa.Call)
		if !ok {
			continue
		}
		bi, ok := app.Call.Value.(*ssa.Builtin)
		if !ok || bi.Name() != "append" || len(app.Call.Args) != 2 {
			continue
		}
		// the appended element
		var target ssa.Value
		if sl, ok := app.Call.Args[1].(*ssa.Slice); ok {
			if al, ok := sl.X.(*ssa.Alloc); ok {
				n := 0
				for _, r := range *al.Referrers() {
					ia, ok := r.(*ssa.IndexAddr)
					if !ok {
						continue
					}
					for _, r2 := range *ia.Referrers() {
						if st, ok := r2.(*ssa.Store); ok && st.Addr == ssa.Value(ia) {
							target = st.Val
							n++
						}
					}
				}
				if n != 1 {
					target = nil
				}
			}
		}
		if target == nil || !c.isSDKValue(target) {
			continue
		}
		// the base slice
		base := app.Call.Args[0]
		for {
			if sl, ok := base.(*ssa.Slice); ok {
				base = sl.X
				continue
			}
			break
		}
		// base is the parameter of the same position, or a phi of it and fresh literals
		if ai >= len(fn.Params) {
			continue
		}
		param := ssa.Value(fn.Params[ai])
		fromParam := base == param
		if phi, ok := base.(*ssa.Phi); ok {
			fromParam = false
			for _, ed := range phi.Edges {
				if ed == param {
					fromParam = true
				}
			}
		}
		if !fromParam {
			continue
		}
		// the scan written with the standard helper: the call is reached only on the negative outcome of
		// slices.Contains(base, target)
		notThere := func(cond core.Cond) bool {
			cc, ok := cond.V.(*ssa.Call)
			return ok && !cond.True && len(cc.Call.Args) == 2 && strings.HasPrefix(core.StaticCalleeName(&cc.Call), "slices.Contains") &&
				cc.Call.Args[0] == base && sameValue(cc.Call.Args[1], target)
		}
		if core.MustHold(fn, notThere)[e.site.Block()] {
			return "the recursive call extends its " + fn.Params[ai].Name() + " parameter by the object it descends into, and is reached only where slices.Contains of that list and the object was false: the depth is bounded by the number of objects of the schema, and no other call leads back into the function"
		}
		// the scan: a block comparing an element of base with the target, returning on equality and otherwise going back
		// to a loop header whose exit dominates the call
		for _, b := range fn.Blocks {
			if len(b.Instrs) == 0 {
				continue
			}
			ifi, ok := b.Instrs[len(b.Instrs)-1].(*ssa.If)
			if !ok {
				continue
			}
			bin, ok := ifi.Cond.(*ssa.BinOp)
			if !ok || bin.Op != token.EQL {
				continue
			}
			elemOK := false
			for _, pr := range [][2]ssa.Value{{bin.X, bin.Y}, {bin.Y, bin.X}} {
				if pr[1] != target {
					continue
				}
				if ld, ok := pr[0].(*ssa.UnOp); ok {
					if ia, ok := ld.X.(*ssa.IndexAddr); ok && ia.X == base {
						elemOK = true
					}
				}
			}
			if !elemOK {
				continue
			}
			returns := false
			for _, in := range b.Succs[0].Instrs {
				if _, ok := in.(*ssa.Return); ok {
					returns = true
				}
			}
			header := b.Succs[1]
			if !returns || len(header.Instrs) == 0 || !strings.HasPrefix(header.Comment, "rangeindex") {
				continue
			}
			hif, ok := header.Instrs[len(header.Instrs)-1].(*ssa.If)
			if !ok || header.Succs[0] != b {
				continue
			}
			_ = hif
			done := header.Succs[1]
			if done.Dominates(e.site.Block()) {
				return "the recursive call extends its " + fn.Params[ai].Name() + " parameter by the object it descends into, and is reached only after a scan of that list has found the object absent (a match returns): the depth is bounded by the number of objects of the schema, and no other call leads back into the function"
			}
		}
	}
	return ""
}

// entryGuards describes, for a re-seeding edge e, how its source function is entered from outside: the calling
// functions and the nil tests of receiver fields that dominate each entering call. It is part of the violation's key,
// so that a recursion that was reachable only for one representation (under `o.fieldCache != nil`) and becomes
// reachable for all (guard dropped) is a different violation from the recorded one.
func (c *Ctx) entryGuards(edges []termEdge, e termEdge) string {
	var parts []string
	seen := map[string]bool{}
	for _, x := range edges {
		if x.to != e.from || x.from == e.from || x.site == nil {
			continue
		}
		var gs []string
		for _, cond := range core.CondsAt(x.site.Block()) {
			v, neq, ok := core.NilCmp(cond.V)
			if !ok {
				continue
			}
			ld, isLoad := v.(*ssa.UnOp)
			if !isLoad {
				continue
			}
			if _, isField := ld.X.(*ssa.FieldAddr); !isField {
				continue
			}
			op := " == nil"
			if neq == cond.True {
				op = " != nil"
			}
			gs = append(gs, c.stable(x.from, c.M.ValPath(v))+op)
		}
		sort.Strings(gs)
		d := c.M.Key(x.from)
		if len(gs) > 0 {
			d += " under " + strings.Join(gs, " && ")
		} else {
			d += " unconditionally"
		}
		if !seen[d] {
			seen[d] = true
			parts = append(parts, d)
		}
	}
	if len(parts) == 0 {
		return ""
	}
	sort.Strings(parts)
	return "; entered from " + strings.Join(parts, ", ")
}

// refineByFailedAssert: an invoke on a value that, on the way to the call, failed a comma-ok assertion to an interface
// I (`if x, ok := v.(I); ok { ... return }; v.m()`) cannot reach a method of a type that implements I.
func (c *Ctx) refineByFailedAssert(ci ssa.CallInstruction, callees []*ssa.Function) []*ssa.Function {
	cc := ci.Common()
	if !cc.IsInvoke() {
		return callees
	}
	var excluded []*types.Interface
	for _, cond := range core.CondsAt(ci.Block()) {
		ex, ok := cond.V.(*ssa.Extract)
		if !ok || ex.Index != 1 || cond.True {
			continue
		}
		ta, ok := ex.Tuple.(*ssa.TypeAssert)
		if !ok || !ta.CommaOk || ta.X != cc.Value {
			continue
		}
		if it, ok := ta.AssertedType.Underlying().(*types.Interface); ok {
			excluded = append(excluded, it)
		}
	}
	if len(excluded) == 0 {
		return callees
	}
	var out []*ssa.Function
	for _, g := range callees {
		keep := true
		if recv := g.Signature.Recv(); recv != nil {
			for _, it := range excluded {
				if types.Implements(recv.Type(), it) || types.Implements(types.NewPointer(derefType(recv.Type())), it) {
					keep = false
				}
			}
		}
		if keep {
			out = append(out, g)
		}
	}
	return out
}

// refineByFieldStores: an invoke on a value loaded from an unexported struct field can only reach the dynamic types
// ever stored into that field inside the module (unexported: nobody else can write it).
func (c *Ctx) refineByFieldStores(cc *ssa.CallCommon, callees []*ssa.Function) []*ssa.Function {
	if !cc.IsInvoke() {
		return callees
	}
	// the value the method is invoked on: a load of the field, possibly narrowed by a type assertion to another
	// interface (`x, ok := r.field.(someInterface); x.m()`) - the dynamic type is the field's either way
	recv := cc.Value
	for i := 0; i < 3; i++ {
		switch x := recv.(type) {
		case *ssa.Extract:
			recv = x.Tuple
			continue
		case *ssa.TypeAssert:
			recv = x.X
			continue
		case *ssa.ChangeInterface:
			recv = x.X
			continue
		}
		break
	}
	ld, ok := recv.(*ssa.UnOp)
	if !ok || ld.Op != token.MUL {
		return callees
	}
	fa, ok := ld.X.(*ssa.FieldAddr)
	if !ok {
		return callees
	}
	st, _ := derefType(fa.X.Type()).Underlying().(*types.Struct)
	if st == nil || st.Field(fa.Field).Exported() {
		return callees
	}
	f := st.Field(fa.Field).Origin()
	if c.fieldTypes == nil {
		c.fieldTypes = map[*types.Var][]types.Type{}
		c.fieldTypesTop = map[*types.Var]bool{}
		dt := core.NewDynTypes(c.M)
		for _, fn := range c.M.Funcs {
			for _, b := range fn.Blocks {
				for _, in := range b.Instrs {
					s, ok := in.(*ssa.Store)
					if !ok {
						continue
					}
					sfa, ok := s.Addr.(*ssa.FieldAddr)
					if !ok {
						continue
					}
					sst, _ := derefType(sfa.X.Type()).Underlying().(*types.Struct)
					if sst == nil {
						continue
					}
					fld := sst.Field(sfa.Field).Origin()
					if _, isIface := fld.Type().Underlying().(*types.Interface); !isIface || fld.Exported() {
						continue
					}
					ts := dt.Of(s.Val, b)
					if ts.Top {
						c.fieldTypesTop[fld] = true
					}
					c.fieldTypes[fld] = append(c.fieldTypes[fld], ts.Types...)
				}
			}
		}
	}
	if c.fieldTypesTop[f] || len(c.fieldTypes[f]) == 0 {
		return callees
	}
	var out []*ssa.Function
	seen := map[*ssa.Function]bool{}
	for _, t := range c.fieldTypes[f] {
		named, _ := derefType(t).(*types.Named)
		if named == nil {
			return callees
		}
		g := c.methodFn(named.Origin(), cc.Method.Name())
		if g == nil {
			return callees
		}
		if !seen[g] {
			seen[g] = true
			out = append(out, g)
		}
	}
	return out
}

// ruleTermSchemaMode: see ruleTerm.
func (c *Ctx) ruleTermSchemaMode(rule string, all []termEdge, fns map[*ssa.Function]bool) {
	adj := map[*ssa.Function][]termEdge{}
	for _, e := range all {
		adj[e.from] = append(adj[e.from], e)
	}
	reach := func(from *ssa.Function) map[*ssa.Function]bool {
		seen := map[*ssa.Function]bool{from: true}
		work := []*ssa.Function{from}
		for len(work) > 0 {
			f := work[len(work)-1]
			work = work[:len(work)-1]
			for _, e := range adj[f] {
				if !seen[e.to] {
					seen[e.to] = true
					work = append(work, e.to)
				}
			}
		}
		return seen
	}
	n := 0
	seen := map[string]bool{}
	for _, e := range all {
		if os.Getenv("VERIF_DBG") != "" && strings.Contains(c.M.Key(e.from), os.Getenv("VERIF_DBG")) {
			println("EDGE", c.M.Key(e.from), "->", c.M.Key(e.to), e.class, e.isRef, e.schemaMode, e.desc)
		}
		if !e.isRef || !e.schemaMode {
			continue
		}
		k := key(rule, c.M.Key(e.from), "schema-mode dereference -> "+e.to.Name()+": bounded on recursive schemas")
		if seen[k] {
			continue
		}
		seen[k] = true
		n++
		if why := c.visitedPairsGuard(all, e, reach); reach(e.to)[e.from] && why != "" {
			c.R.Ok(rule, k, c.M.InstrPos(e.site), "schema-mode reference dereference on a cycle", why)
			continue
		}
		if reach(e.to)[e.from] {
			c.R.Bad(rule, k, c.M.InstrPos(e.site), "schema-versus-schema comparison recurses through a reference with nothing to bound it",
				"both sides are dereferenced and compared again, and "+c.M.Key(e.to)+" leads back to "+c.M.Key(e.from)+"; the compared schema is itself cyclic for a recursive scope, so there is no shrinking input: comparing two recursive schemas (even a schema with itself) never returns (fatal stack overflow)")
		} else {
			c.R.Ok(rule, k, c.M.InstrPos(e.site), "schema-mode reference dereference", "the callee does not lead back to the dereferencing function")
		}
	}
	c.R.Note("%s (schema mode): %d schema-mode reference dereferences among %d functions", rule, n, len(fns))
}

// visitedPairsGuard: the schema-mode recursion through the dereference e is bounded by a set of visited pairs:
//
//	(1) the dereferencing function has a map-typed parameter P whose key is built from SDK-typed pointers (the consumer's
//	    object and the producer's: finitely many pairs); the dereferencing call is reached only on the not-found outcome
//	    of a comma-ok lookup in P and after an insertion into P - a pair that is found returns without going on. Every
//	    cycle through e passes e's own function, so nothing gets round the test;
//	(2) the set is the same all the way round: among the functions on cycles through e, every call from a function that
//	    has a parameter of P's type to another that has one hands on the caller's own parameter; and a call that leaves
//	    this family (into a public ValidateCompatibility, which starts a fresh set) is not a schema-mode hand-over - it
//	    passes data, whose descent the data-mode analysis bounds.
//
// Each pair is entered at most once per comparison: the depth is bounded by the number of pairs of objects.
func (c *Ctx) visitedPairsGuard(all []termEdge, e termEdge, reach func(*ssa.Function) map[*ssa.Function]bool) string {
	back := reach(e.to)
	if !back[e.from] {
		return ""
	}
	fn := e.from
	var memo *ssa.Parameter
	for _, p := range fn.Params {
		if mt, isMap := p.Type().Underlying().(*types.Map); isMap && c.pairKey(mt.Key()) {
			memo = p
		}
	}
	if memo == nil {
		return ""
	}
	// the test and the insertion may sit in a helper that is handed the set (`if !compared.enter(a, b) { return nil }`):
	// the outcome of the helper that lets the comparison go on implies the not-found outcome of a lookup in the set, and
	// every way out of the helper with that outcome has inserted into it
	helperInserts := func(h *ssa.Function, set *ssa.Parameter, cond core.Cond) bool {
		ins := func(b *ssa.BasicBlock) bool {
			for _, in := range b.Instrs {
				if mu, ok := in.(*ssa.MapUpdate); ok && mu.Map == ssa.Value(set) {
					return true
				}
			}
			return false
		}
		hold := mustHoldGen(h, func(core.Cond) bool { return false }, ins)
		// the ways out on which the lookup was not found
		n := 0
		for _, r := range core.ReturnsOf(h) {
			nf := false
			for _, rc := range r.Conds() {
				if ex, ok := rc.V.(*ssa.Extract); ok && ex.Index == 1 && !rc.True {
					if lk, ok := ex.Tuple.(*ssa.Lookup); ok && lk.CommaOk && lk.X == ssa.Value(set) {
						nf = true
					}
				}
			}
			if !nf {
				continue
			}
			n++
			if !hold[r.Key()] && !ins(r.Block()) {
				return false
			}
		}
		return n > 0
	}
	viaHelper := false
	notFound := func(cond core.Cond) bool {
		ex, ok := cond.V.(*ssa.Extract)
		if !ok || ex.Index != 1 || cond.True {
			return false
		}
		lk, ok := ex.Tuple.(*ssa.Lookup)
		if !ok || !lk.CommaOk {
			return false
		}
		if lk.X == ssa.Value(memo) {
			return true
		}
		if cond.Via != nil && viaArg(cond, lk.X) == ssa.Value(memo) {
			if h := core.StaticBody(&cond.Via.Call); h != nil {
				if set, isParam := lk.X.(*ssa.Parameter); isParam && helperInserts(h, set, cond) {
					viaHelper = true
					return true
				}
			}
		}
		return false
	}
	inserted := func(b *ssa.BasicBlock) bool {
		for _, in := range b.Instrs {
			if mu, ok := in.(*ssa.MapUpdate); ok && mu.Map == ssa.Value(memo) {
				// before the dereferencing call if in its block
				if b == e.site.Block() && !instrDominates(mu, e.site) {
					continue
				}
				return true
			}
		}
		return false
	}
	b := e.site.Block()
	if !core.MustHold(fn, notFound)[b] || !(viaHelper || mustHoldGen(fn, func(core.Cond) bool { return false }, inserted)[b] || inserted(b)) {
		return ""
	}
	// the call hands the set on
	handsOn := func(x termEdge, own ssa.Value) bool {
		for _, a := range x.site.Common().Args {
			if a == own {
				return true
			}
		}
		return false
	}
	onCycle := map[*ssa.Function]bool{fn: true}
	for f := range back {
		if reach(f)[fn] {
			onCycle[f] = true
		}
	}
	family := func(f *ssa.Function) ssa.Value {
		for _, p := range f.Params {
			if types.Identical(p.Type(), memo.Type()) {
				return p
			}
		}
		return nil
	}
	nFamily := 0
	for f := range onCycle {
		own := family(f)
		if own == nil {
			continue
		}
		nFamily++
		for _, x := range all {
			if x.from != f || !onCycle[x.to] {
				continue
			}
			if family(x.to) != nil {
				if !handsOn(x, own) {
					if os.Getenv("VERIF_DBG") != "" {
						println("PAIRS not handed:", c.M.Key(f), "->", c.M.Key(x.to), c.M.InstrPos(x.site))
					}
					return ""
				}
			} else if x.schemaMode {
				if os.Getenv("VERIF_DBG") != "" {
					println("PAIRS schema-mode hand-over leaves the family:", c.M.Key(f), "->", c.M.Key(x.to), c.M.InstrPos(x.site))
				}
				return ""
			}
		}
	}
	return sprintf("bounded by a set of visited pairs: the dereferencing call is made only where the pair (own object, other object) was not found in the map parameter %s and after it was entered there - a pair that is found returns; %d functions on the cycles through it carry that set, every call among them hands on the caller's own, and no schema is handed to a function outside them: each pair of objects is entered at most once per comparison", memo.Name(), nFamily)
}

// pairKey: a map key type built from pointers to SDK types (an array or struct of them, or one pointer).
func (c *Ctx) pairKey(t types.Type) bool {
	switch u := t.Underlying().(type) {
	case *types.Array:
		return c.pairKey(u.Elem())
	case *types.Struct:
		for i := 0; i < u.NumFields(); i++ {
			if !c.pairKey(u.Field(i).Type()) {
				return false
			}
		}
		return u.NumFields() > 0
	case *types.Pointer:
		return c.isSDKType(t)
	}
	return false
}

// isSDKValue: the value has an SDK schema type, possibly boxed into `any` for the call.
func (c *Ctx) isSDKValue(v ssa.Value) bool {
	for i := 0; i < 4; i++ {
		if c.isSDKType(v.Type()) {
			return true
		}
		switch x := v.(type) {
		case *ssa.MakeInterface:
			v = x.X
		case *ssa.ChangeInterface:
			v = x.X
		default:
			return false
		}
	}
	return false
}

// feedersGuarded (exception E-DEFAULTGUARD): the call e hands on what it looks up in a map M that its function fills -
// with the caller's input, and with values of the schema (a property's default value, the defaults of an unset
// sub-object). It is the values of the schema that make the edge class A. The exception applies where every one of them
// enters M in a way whose boundedness has a structural witness:
//
//	(a) a store M[k] = v of a value v reached from the receiver is dominated by the false outcome of a call G(.., v, ..)
//	    of a bool function, and the walk G makes is bounded: the function it recurses in calls itself only with a
//	    strict component of a data parameter, or with its list parameter extended by an element X of an SDK type
//	    (finitely many) behind the negative outcome of slices.Contains(list, X);
//	(b) a callee that is handed M is called only where the receiver's field cache was found non-nil (the object is mapped
//	    to a struct), stores into M only where the struct field the value is meant for was found to be neither a pointer
//	    nor an interface (or there is no struct field), and its own recursion carries a visited path (decided
//	    separately, as a class A self edge).
//
//	(c) where the walk of G selects the member of a one-of (a lookup in a receiver table of objects keyed by the type's
//	    key parameter), the key comes out of the same conversion function that the one-of's UnserializeType uses before
//	    its own lookup: the value walked is raw, decoded data, like the input of Unserialize (a JSON number is a float64).
//
//	(f) every such store is made only for a key that is absent from M (behind the failed comma-ok lookup of that key):
//	    the walk of G reads "unset" as "the key is absent", so must the code that re-seeds.
//
// NOT checked by the machine, confirmed by reading: that G walks the value the way the recursion will (so that "G found
// no place where v is needed again" means the recursion does not come back to this store with v), and that values built
// under (b) nest only as deep as the Go struct types do, which cannot be recursive without a pointer or an interface.
// Remove a guard, store another value of the schema, or drop one of the two field kinds, and the exception does not
// apply: the edge is the violation it was.
func (c *Ctx) feedersGuarded(e termEdge) string {
	fn := e.from
	if len(fn.Params) == 0 {
		return ""
	}
	// the map the argument is looked up in
	var m ssa.Value
	for _, a := range e.site.Common().Args {
		v := a
		for i := 0; i < 4 && m == nil; i++ {
			switch x := v.(type) {
			case *ssa.Extract:
				v = x.Tuple
			case *ssa.Lookup:
				if _, isMake := x.X.(*ssa.MakeMap); isMake {
					m = x.X
				}
				i = 4
			default:
				i = 4
			}
		}
	}
	if m == nil {
		return ""
	}
	guards, callees := []string{}, []string{}
	for _, b := range fn.Blocks {
		for _, in := range b.Instrs {
			switch x := in.(type) {
			case *ssa.MapUpdate:
				if x.Map != m {
					continue
				}
				v := x.Value
				if mi, ok := v.(*ssa.MakeInterface); ok {
					v = mi.X
				}
				if call, ok := core.Unwrap(v).(*ssa.Call); ok {
					if _, _, _, isOp := c.opCall(&call.Call); isOp {
						continue // the result of a data operation: output, not a value of the schema
					}
				}
				if ex, ok := v.(*ssa.Extract); ok {
					if call, ok := ex.Tuple.(*ssa.Call); ok {
						if _, _, _, isOp := c.opCall(&call.Call); isOp {
							continue
						}
					}
				}
				if !reachedFrom(v, fn.Params[0], 0) {
					continue // from the input
				}
				// (f) the value stands in for a key that is absent from M: the store lies behind the failed comma-ok lookup of
				// the same key. That is what "unset" means to the walk of G (a key that is present, whatever it holds, is
				// walked as supplied data); a store that is also made for a present key - an explicit null, say - re-seeds
				// Unserialize at a place where the walk found nothing to re-seed.
				absent := false
				for _, cond := range core.CondsAt(b) {
					if t, isOk := core.CommaOk(cond.V); isOk && !cond.True {
						if lk, isLk := t.(*ssa.Lookup); isLk && lk.X == m && (lk.Index == x.Key || c.M.ValPath(lk.Index) == c.M.ValPath(x.Key)) {
							absent = true
						}
					}
				}
				if !absent {
					return ""
				}
				g := c.guardOf(fn, b, x.Value)
				if g == nil {
					// the value and its guard may both sit in a helper of the receiver that hands the value out
					if gs := c.guardedInHelper(fn, x.Value); len(gs) > 0 {
						guards = append(guards, gs...)
						continue
					}
					return ""
				}
				if !c.guardSelectsLikeUnserialize(g) {
					return ""
				}
				if !c.guardSharesWithUnserialize(fn, g, x.Value) {
					return ""
				}
				guards = append(guards, c.M.Key(g))
			case *ssa.Call:
				passes := false
				for _, a := range x.Call.Args {
					if a == m {
						passes = true
					}
				}
				if !passes {
					continue
				}
				sc := x.Call.StaticCallee()
				if sc == nil || len(sc.Blocks) == 0 {
					return ""
				}
				if !c.storesOnlyForValueFields(sc) {
					return ""
				}
				// ... and only for an object that is mapped to a struct: the call is made where the receiver's field
				// cache was found non-nil. (For a map-based object nothing bounds the nesting of what is built: two
				// objects that refer to each other and have a default each would build each other's value for ever.)
				structMapped := core.MustHold(fn, func(cond core.Cond) bool {
					v, neq, ok := core.NilCmp(cond.V)
					if !ok || neq != cond.True {
						return false
					}
					ld, ok := v.(*ssa.UnOp)
					if !ok {
						return false
					}
					fa, ok := ld.X.(*ssa.FieldAddr)
					return ok && fa.X == ssa.Value(fn.Params[0]) && strings.HasSuffix(typeStr(ld.Type()), "reflect.StructField")
				})
				if !structMapped[b] {
					return ""
				}
				callees = append(callees, c.M.Key(sc))
			}
		}
	}
	if len(guards) == 0 {
		return ""
	}
	why := "E-DEFAULTGUARD: the values of the schema that " + c.M.Key(fn) + " puts into the map it unserializes from are stored only where " + strings.Join(guards, ", ") + " answered false for that value (a walk whose recursion either descends into its data or extends a list of SDK-typed entries behind a negative slices.Contains; the value is worked out by a function that the walk calls for the objects it visits as well, and the walk asks the same predicate as Unserialize before it takes a value that is not a map)"
	if len(callees) > 0 {
		why += "; " + strings.Join(callees, ", ") + " stores into it only for struct fields that are neither pointers nor interfaces"
	}
	return why + ". That the walk covers the way the recursion takes, and that built values nest no deeper than the Go struct types, is confirmed by reading, not by the checker"
}

// guardedInHelper: v is a result of a helper that fn calls on its own receiver, and on every way out of the helper that
// hands out a value of the schema in that position the value is guarded there as clause (a) demands (with (c), (d) and
// (e) for the guard). Returns the guards, nil if some such way out is not guarded.
func (c *Ctx) guardedInHelper(fn *ssa.Function, v ssa.Value) []string {
	if mi, ok := v.(*ssa.MakeInterface); ok {
		v = mi.X
	}
	call, idx, isCall := core.CallResult(v)
	if !isCall || len(fn.Params) == 0 || len(call.Call.Args) == 0 || call.Call.Args[0] != ssa.Value(fn.Params[0]) {
		return nil
	}
	h := core.StaticBody(&call.Call)
	if h == nil || h == fn || h.Pkg != fn.Pkg || len(h.Params) == 0 || idx >= h.Signature.Results().Len() {
		return nil
	}
	var guards []string
	for _, r := range core.ReturnsOf(h) {
		rv := r.Val(idx)
		if k, isConst := rv.(*ssa.Const); isConst && k.IsNil() {
			continue
		}
		if !reachedFrom(rv, h.Params[0], 0) {
			continue
		}
		g := c.guardOf(h, r.Key(), rv)
		if g == nil || !c.guardSelectsLikeUnserialize(g) || !c.guardSharesWithUnserialize(h, g, rv) {
			return nil
		}
		guards = append(guards, c.M.Key(g)+" (in "+c.M.Key(h)+")")
	}
	return guards
}

// guardOf: the bool function G whose false outcome, for a call with v among its arguments, holds on every path to b -
// provided the walk G makes is bounded (boundedWalk).
func (c *Ctx) guardOf(fn *ssa.Function, b *ssa.BasicBlock, v ssa.Value) *ssa.Function {
	var found *ssa.Function
	est := func(cond core.Cond) bool {
		call, ok := cond.V.(*ssa.Call)
		if !ok || cond.True {
			return false
		}
		g := call.Call.StaticCallee()
		if g == nil || g.Signature.Results().Len() != 1 {
			return false
		}
		if bt, isBasic := g.Signature.Results().At(0).Type().Underlying().(*types.Basic); !isBasic || bt.Kind() != types.Bool {
			return false
		}
		has := false
		for _, a := range call.Call.Args {
			if a == v {
				has = true
			}
		}
		if !has || !c.boundedWalk(g, 0) {
			return false
		}
		found = g
		return true
	}
	if core.MustHold(fn, est)[b] {
		return found
	}
	return nil
}

// boundedWalk: g is, or does nothing but call (depth <= 2), a function all of whose calls of itself hand on a strict
// component of one of its data parameters, or its list parameter extended by an SDK-typed X behind !slices.Contains(list, X).
func (c *Ctx) boundedWalk(g *ssa.Function, depth int) bool {
	if g == nil || len(g.Blocks) == 0 || depth > 2 {
		return false
	}
	selfCalls := 0
	var others []*ssa.Function
	for _, b := range g.Blocks {
		for _, in := range b.Instrs {
			call, ok := in.(*ssa.Call)
			if !ok {
				continue
			}
			sc := call.Call.StaticCallee()
			if sc == nil {
				continue
			}
			if sc == g {
				selfCalls++
				continue
			}
			if sc.Pkg == g.Pkg && !call.Call.IsInvoke() && strings.Contains(c.M.Key(sc), "efault") {
				others = append(others, sc)
			}
		}
	}
	if selfCalls == 0 {
		// a front door: it hands on to the walk
		for _, h := range others {
			if c.boundedWalk(h, depth+1) {
				return true
			}
		}
		return false
	}
	sum := c.termSummary(g)
	for _, b := range g.Blocks {
		for _, in := range b.Instrs {
			call, ok := in.(*ssa.Call)
			if !ok || call.Call.StaticCallee() != g {
				continue
			}
			descends, extended, sameLists := false, false, true
			for ai, a := range call.Call.Args {
				if ai >= len(g.Params) {
					return false
				}
				if _, isSlice := a.Type().Underlying().(*types.Slice); isSlice {
					if a == ssa.Value(g.Params[ai]) {
						continue
					}
					sameLists = false
					app, ok := a.(*ssa.Call)
					if !ok {
						return false
					}
					bi, ok := app.Call.Value.(*ssa.Builtin)
					if !ok || bi.Name() != "append" || len(app.Call.Args) != 2 {
						return false
					}
					base := app.Call.Args[0]
					for {
						if sl, ok := base.(*ssa.Slice); ok {
							base = sl.X
							continue
						}
						break
					}
					if base != ssa.Value(g.Params[ai]) {
						return false
					}
					elems := variadicElems(app.Call.Args[1])
					if len(elems) != 1 || elems[0] == nil || !c.isSDKType(elems[0].Type()) {
						return false
					}
					x := elems[0]
					notThere := func(cond core.Cond) bool {
						cc, ok := cond.V.(*ssa.Call)
						if !ok || cond.True || len(cc.Call.Args) != 2 {
							return false
						}
						if n := core.StaticCalleeName(&cc.Call); !strings.HasPrefix(n, "slices.Contains") {
							return false
						}
						return cc.Call.Args[0] == ssa.Value(g.Params[ai]) && sameValue(cc.Call.Args[1], x)
					}
					if !core.MustHold(g, notThere)[b] {
						return false
					}
					extended = true
					continue
				}
				// a strict component of a data parameter?
				for l := range sum.L[a] {
					if l.param == ai && l.kind == kSub {
						descends = true
					}
				}
			}
			if !(extended || (descends && sameLists)) {
				return false
			}
		}
	}
	return true
}

// sameValue: a and b are the same SSA value, or loads of the same local.
func sameValue(a, b ssa.Value) bool {
	if a == b {
		return true
	}
	la, oka := a.(*ssa.UnOp)
	lb, okb := b.(*ssa.UnOp)
	if oka && okb && la.X == lb.X {
		return true
	}
	return false
}

// storesOnlyForValueFields: every update of a map parameter in g sits where, on every path, the lookup of the struct
// field the value is meant for failed, or the field's kind was found to be neither Pointer nor Interface.
func (c *Ctx) storesOnlyForValueFields(g *ssa.Function) bool {
	n := 0
	fieldKind := func(cond core.Cond, kind int64) bool {
		// lookup in the field cache failed
		if ex, ok := cond.V.(*ssa.Extract); ok && ex.Index == 1 && !cond.True {
			if lk, ok := ex.Tuple.(*ssa.Lookup); ok && lk.CommaOk && strings.HasSuffix(typeStr(lk.X.Type()), "reflect.StructField") {
				return true
			}
		}
		bin, ok := cond.V.(*ssa.BinOp)
		if !ok || (bin.Op != token.EQL && bin.Op != token.NEQ) || (bin.Op == token.EQL) == cond.True {
			return false
		}
		for _, pair := range [][2]ssa.Value{{bin.X, bin.Y}, {bin.Y, bin.X}} {
			call, ok := pair[0].(*ssa.Call)
			if !ok || !call.Call.IsInvoke() || call.Call.Method.Name() != "Kind" {
				continue
			}
			if k, isConst := core.ConstInt(pair[1]); isConst && k == kind {
				// Kind() of the Type of a StructField
				if derivedFrom(call.Call.Value, func(x ssa.Value) bool {
					fa, ok := x.(*ssa.FieldAddr)
					return ok && strings.HasSuffix(typeStr(fa.X.Type()), "reflect.StructField")
				}) {
					return true
				}
			}
		}
		return false
	}
	notPtr := core.MustHold(g, func(cond core.Cond) bool { return fieldKind(cond, 22) })
	notIface := core.MustHold(g, func(cond core.Cond) bool { return fieldKind(cond, 20) })
	for _, b := range g.Blocks {
		for _, in := range b.Instrs {
			mu, ok := in.(*ssa.MapUpdate)
			if !ok {
				continue
			}
			if _, isParam := mu.Map.(*ssa.Parameter); !isParam {
				continue
			}
			n++
			if !notPtr[b] || !notIface[b] {
				return false
			}
		}
	}
	return n > 0
}

// memberTableLookups: the lookups, in fn, in a map field of the receiver whose elements are of the SDK's Object
// interface (the member table of a one-of), with the functions whose results the key is computed from.
func (c *Ctx) memberTableLookups(fn *ssa.Function) (lookups []*ssa.Lookup, converters map[*ssa.Lookup]map[*ssa.Function]bool) {
	converters = map[*ssa.Lookup]map[*ssa.Function]bool{}
	if len(fn.Params) == 0 {
		return
	}
	for _, b := range fn.Blocks {
		for _, in := range b.Instrs {
			lk, ok := in.(*ssa.Lookup)
			if !ok {
				continue
			}
			mt, ok := lk.X.Type().Underlying().(*types.Map)
			if !ok {
				continue
			}
			en, isNamedElem := mt.Elem().(*types.Named)
			if !isNamedElem || en.Obj().Name() != "Object" || !reachedFrom(lk.X, fn.Params[0], 0) {
				continue
			}
			lookups = append(lookups, lk)
			set := map[*ssa.Function]bool{}
			seen := map[ssa.Value]bool{}
			resultIdx := map[*ssa.Call]int{}
			var walk func(v ssa.Value, d int)
			walk = func(v ssa.Value, d int) {
				if v == nil || d > 8 || seen[v] {
					return
				}
				seen[v] = true
				switch x := v.(type) {
				case *ssa.Call:
					if sc := x.Call.StaticCallee(); sc != nil && strings.HasPrefix(c.M.Key(sc), "schema.") {
						if o := sc.Origin(); o != nil {
							sc = o
						}
						// a helper that hands on the result of the conversion stands for the conversion
						idx := resultIdx[x]
						for hop := 0; hop < 3; hop++ {
							inner, i, passes := core.PassesOn(c.M.Source(sc), idx)
							if !passes {
								break
							}
							sc, idx = inner, i
						}
						set[sc] = true
					}
					return
				case *ssa.Extract:
					if call, isCall := x.Tuple.(*ssa.Call); isCall {
						resultIdx[call] = x.Index
					}
					walk(x.Tuple, d+1)
				case *ssa.Phi:
					for _, e := range x.Edges {
						walk(e, d+1)
					}
				case *ssa.UnOp:
					if al, ok := x.X.(*ssa.Alloc); ok {
						for _, r := range *al.Referrers() {
							if st, ok := r.(*ssa.Store); ok && st.Addr == ssa.Value(al) {
								walk(st.Val, d+1)
							}
						}
					}
				case *ssa.TypeAssert:
					walk(x.X, d+1)
				case *ssa.ChangeType:
					walk(x.X, d+1)
				case *ssa.Convert:
					walk(x.X, d+1)
				case *ssa.MakeInterface:
					walk(x.X, d+1)
				}
			}
			walk(lk.Index, 0)
			delete(set, nil)
			converters[lk] = set
		}
	}
	return
}

// guardReach: what the guard reaches (same package, four levels), the data operations themselves left out.
func (c *Ctx) guardReach(g *ssa.Function) map[*ssa.Function]bool {
	reach := map[*ssa.Function]bool{g: true}
	frontier := []*ssa.Function{g}
	for depth := 0; depth < 4; depth++ {
		var next []*ssa.Function
		for _, f := range frontier {
			for _, e := range c.M.Edges(f) {
				if e.To.Pkg == g.Pkg && !reach[e.To] && len(e.To.Blocks) > 0 {
					name := e.To.Name()
					if name == "Unserialize" || name == "UnserializeType" || name == "Validate" || name == "Serialize" || compatName(name) == "ValidateCompatibility" {
						continue // the data operations themselves are not part of the walk
					}
					reach[e.To] = true
					next = append(next, e.To)
				}
			}
		}
		frontier = next
	}
	return reach
}

// guardSharesWithUnserialize: clauses (d) and (e) of E-DEFAULTGUARD. What the walk looks at must be what Unserialize
// goes through - not a second description of it, which can leave a way out (two did: the single-property shorthand of a
// value that is not a map, and the sub-object defaults a struct-mapped object fills in):
//
//	(d) the guarded value v is worked out by a function F of the receiver (a call result), and the walk calls the same F
//	    for the unset properties of the objects it visits;
//	(e) the predicate P behind which the receiver's Unserialize takes a value that is not a map (a bool method of the
//	    receiver whose true outcome holds at the hand-over to the function that unserializes the lone value) is called
//	    by the walk as well.
func (c *Ctx) guardSharesWithUnserialize(fn *ssa.Function, g *ssa.Function, v ssa.Value) bool {
	reach := c.guardReach(g)
	calls := func(target *ssa.Function) bool {
		for f := range reach {
			for _, b := range f.Blocks {
				for _, in := range b.Instrs {
					if call, ok := in.(*ssa.Call); ok && core.StaticBody(&call.Call) == target {
						return true
					}
				}
			}
		}
		return false
	}
	// (d)
	if mi, ok := v.(*ssa.MakeInterface); ok {
		v = mi.X
	}
	producer, _, isCall := core.CallResult(v)
	if !isCall {
		return false
	}
	f := core.StaticBody(&producer.Call)
	if f == nil || len(producer.Call.Args) == 0 || producer.Call.Args[0] != ssa.Value(fn.Params[0]) || !calls(f) {
		return false
	}
	// (b) again, for the function that works the value out: what it lets a callee put into a map it made (the defaults of
	// the sub-object the property holds) is built only for an object that is mapped to a struct, and only for fields
	// that are neither pointers nor interfaces - nothing bounds the nesting of what is built for a map-based object
	if len(f.Params) > 0 {
		structMapped := core.MustHold(f, func(cond core.Cond) bool {
			x, neq, ok := core.NilCmp(cond.V)
			if !ok || neq != cond.True {
				return false
			}
			ld, ok := x.(*ssa.UnOp)
			if !ok {
				return false
			}
			fa, ok := ld.X.(*ssa.FieldAddr)
			return ok && fa.X == ssa.Value(f.Params[0]) && strings.HasSuffix(typeStr(ld.Type()), "reflect.StructField")
		})
		for _, b := range f.Blocks {
			for _, in := range b.Instrs {
				call, ok := in.(*ssa.Call)
				if !ok {
					continue
				}
				handsMap := false
				for _, a := range call.Call.Args {
					if _, isMake := a.(*ssa.MakeMap); isMake {
						handsMap = true
					}
				}
				if !handsMap {
					continue
				}
				sc := core.StaticBody(&call.Call)
				if sc == nil || !c.storesOnlyForValueFields(sc) || !structMapped[b] {
					return false
				}
			}
		}
	}
	// (e)
	if len(fn.Params) == 0 {
		return false
	}
	recvT := fn.Params[0].Type()
	for _, op := range c.M.Funcs {
		if op.Name() != "Unserialize" || len(op.Params) == 0 || !types.Identical(op.Params[0].Type(), recvT) {
			continue
		}
		for _, b := range op.Blocks {
			for _, in := range b.Instrs {
				call, ok := in.(*ssa.Call)
				if !ok {
					continue
				}
				// the hand-over of a value that is not a map: a same-receiver callee that is given the raw data and does
				// not take it as a map (it is reached where Kind() != Map)
				notMap := false
				var predicates []*ssa.Function
				for _, cond := range core.CondsAt(b) {
					if bin, isBin := cond.V.(*ssa.BinOp); isBin && (bin.Op == token.NEQ) == cond.True {
						if kc, isKind := bin.X.(*ssa.Call); isKind && reflectValueMethod(kc) == "Kind" {
							if k, isConst := core.ConstInt(bin.Y); isConst && k == 21 { // reflect.Map
								notMap = true
							}
						}
					}
					if pc, isCall := cond.V.(*ssa.Call); isCall && cond.True && cond.Via == nil {
						if p := core.StaticBody(&pc.Call); p != nil && len(pc.Call.Args) == 1 && pc.Call.Args[0] == ssa.Value(op.Params[0]) {
							predicates = append(predicates, p)
						}
					}
				}
				target := core.StaticBody(&call.Call)
				if !notMap || target == nil || len(call.Call.Args) < 2 || call.Call.Args[0] != ssa.Value(op.Params[0]) {
					continue
				}
				passesData := false
				for _, a := range call.Call.Args[1:] {
					if a == ssa.Value(op.Params[1]) {
						passesData = true
					}
				}
				if !passesData {
					continue
				}
				if len(predicates) == 0 {
					return false // the shorthand is taken behind a condition the walk cannot share
				}
				for _, p := range predicates {
					if !calls(p) {
						return false
					}
				}
			}
		}
	}
	return true
}

// guardSelectsLikeUnserialize: clause (c) of E-DEFAULTGUARD.
func (c *Ctx) guardSelectsLikeUnserialize(g *ssa.Function) bool {
	// the conversion functions of the one-of's Unserialize side
	reference := map[*ssa.Function]bool{}
	for _, named := range c.serializableTypes() {
		for _, mn := range []string{"UnserializeType", "Unserialize"} {
			fn := c.methodFn(named, mn)
			if fn == nil || len(fn.Blocks) == 0 {
				continue
			}
			lks, convs := c.memberTableLookups(fn)
			if os.Getenv("VERIF_DEBUG") == "guard" {
				println("GUARD side", c.M.Key(fn), len(lks))
			}
			for _, set := range convs {
				for f := range set {
					reference[f] = true
				}
			}
		}
	}
	if os.Getenv("VERIF_DEBUG") == "guard" {
		for f := range reference {
			println("GUARD reference", c.M.Key(f))
		}
	}
	if len(reference) == 0 {
		return false
	}
	reach := c.guardReach(g)
	found := false
	for f := range reach {
		lookups, convs := c.memberTableLookups(f)
		if os.Getenv("VERIF_DEBUG") == "guard" {
			println("GUARD reach", c.M.Key(f), len(lookups))
			for _, lk := range lookups {
				for conv := range convs[lk] {
					println("   conv", c.M.Key(conv))
				}
			}
		}
		for _, lk := range lookups {
			found = true
			ok := false
			for conv := range convs[lk] {
				if reference[conv] {
					ok = true
				}
			}
			if !ok {
				return false
			}
		}
	}
	return found
}
