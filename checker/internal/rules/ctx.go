// Package rules holds the repository-specific analyses. Each rule enumerates obligations into the report.
package rules

import (
	"fmt"
	"go/types"
	"regexp"
	"sort"
	"strings"

	"golang.org/x/tools/go/ssa"

	"verifcheck/internal/core"
)

// Ctx is what a rule sees.
type Ctx struct {
	paramTrail     map[*ssa.Parameter]string // loadersLink: the field trail a worker's parameter stands for at the call being followed
	termCache      map[*ssa.Function]*termSum
	fieldTypes     map[*types.Var][]types.Type
	fieldTypesTop  map[*types.Var]bool
	M              *core.Module // the SDK module (schema, atp, plugin)
	dispatchMemo   map[*ssa.Function]string
	msgIsErrorText bool         // set by onlyMsg: the accumulated text reached the message of a returned error (not a panic or a log line)
	Gen            *core.Module // the code generator module (nil unless the property needs it)
	R              *core.Report
	Tier           string
	Prop           string

	lockCache      *lockInfo
	lockWrappers   map[*ssa.Function][]string // functions that return with a parameter's mutex held (see locks())
	refDerivedMemo map[*ssa.Function]map[ssa.Value]bool
	refusalHelpers map[*ssa.Function]bool
	entryMarks     map[*ssa.Function]*entrySection
	rolesCache     *atpRoles
}

// PropSpec describes how a property is decided.
type PropSpec struct {
	ID          string
	NeedsGen    bool
	Explanation string   // clauses decided + residue (goes to evidence.coverage.explanation)
	Assumptions []string // stated in evidence
	Rules       []func(*Ctx)
}

var registry = map[string]*PropSpec{}

func register(p *PropSpec) { registry[p.ID] = p }

// Lookup returns the spec for a property id.
func Lookup(id string) *PropSpec { return registry[id] }

// IDs returns the registered property ids, sorted.
func IDs() []string {
	var out []string
	for k := range registry {
		out = append(out, k)
	}
	sort.Strings(out)
	return out
}

// fn looks up a source function by key and records an unresolved anchor when it is missing.
func (c *Ctx) fn(rule, key string) *ssa.Function {
	f := c.lookupFn(key)
	if f == nil {
		c.R.Unresolved(rule, "function "+key)
		return nil
	}
	// the body, if the function only hands over to a worker (an entry/worker pair)
	return trampolineOf(c.M, f)
}

// lookupFn: the function of that key, or - a method that became a function of the package (or the reverse) keeps its
// name - the only function of the package that is called so.
func (c *Ctx) lookupFn(key string) *ssa.Function {
	f := c.M.FuncByKey[key]
	if f == nil {
		// a method that became a function of the package (or the reverse) keeps its name: the only function of the
		// package that is called so stands for it
		name := key[strings.LastIndex(key, ".")+1:]
		pkg := key[:strings.Index(key, ".")]
		var found []*ssa.Function
		for _, g := range c.M.Funcs {
			if g.Parent() == nil && g.Name() == name && strings.HasPrefix(c.M.Key(g), pkg+".") {
				found = append(found, g)
			}
		}
		if len(found) == 1 {
			f = found[0]
		}
	}
	return f
}

// dataMapParam: the parameter of fn that is a map[string]any (the data of an object), nil if there is not exactly one.
func dataMapParam(fn *ssa.Function) *ssa.Parameter {
	var out *ssa.Parameter
	for _, p := range fn.Params {
		if typeStr(p.Type()) == "map[string]any" || typeStr(p.Type()) == "map[string]interface{}" {
			if out != nil {
				return nil
			}
			out = p
		}
	}
	return out
}

func key(parts ...string) string { return strings.Join(parts, " | ") }

func sprintf(f string, a ...any) string { return fmt.Sprintf(f, a...) }

var trustedBase = []string{
	"Go type checker (go/types, go 1.23.5) and go/packages loader",
	"go/ssa of golang.org/x/tools v0.29.0 (SSA construction, dominator tree)",
	"the rule implementations under /verif/checker/internal/rules",
	"the library behaviour tables in the rules (reflect preconditions, sync, channel semantics)",
}

// TrustedBase is stated in every evidence file.
func TrustedBase() []string { return trustedBase }

var regRe = regexp.MustCompile(`(%|&?local:|\?)t[0-9]+`)

// stable rewrites SSA register names inside an access path into position-free descriptions of the producing
// instruction, so that obligation keys survive unrelated edits of the function.
func (c *Ctx) stable(fn *ssa.Function, path string) string {
	if !strings.Contains(path, "%t") && !strings.Contains(path, "local:t") && !strings.Contains(path, "?t") {
		return path
	}
	return regRe.ReplaceAllStringFunc(path, func(reg string) string {
		name := reg[strings.LastIndex(reg, "t"):]
		if strings.HasPrefix(reg, "?") {
			return "?"
		}
		if strings.Contains(reg, "local:") {
			for _, b := range fn.Blocks {
				for _, in := range b.Instrs {
					if al, ok := in.(*ssa.Alloc); ok && al.Name() == name {
						d := al.Comment
						if d == "" || d == "complit" || d == "varargs" {
							d = typeStr(al.Type().Underlying().(*types.Pointer).Elem())
						}
						return "<local " + d + ">"
					}
				}
			}
			return "<local>"
		}
		for _, b := range fn.Blocks {
			for _, in := range b.Instrs {
				if v, ok := in.(ssa.Value); ok && v.Name() == name {
					return "<" + c.valueDesc(v, 0) + ">"
				}
			}
		}
		return reg
	})
}

func (c *Ctx) valueDesc(v ssa.Value, depth int) string {
	if depth > 4 {
		return typeStr(v.Type())
	}
	sub := func(x ssa.Value) string {
		p := c.M.ValPath(x)
		if strings.HasPrefix(p, "%") || strings.Contains(p, "%t") {
			return c.valueDesc(x, depth+1)
		}
		return p
	}
	switch x := v.(type) {
	case *ssa.Extract:
		switch t := x.Tuple.(type) {
		case *ssa.TypeAssert:
			return sub(t.X) + ".(" + typeStr(t.AssertedType) + ")"
		case *ssa.Lookup:
			return sub(t.X) + "[" + sub(t.Index) + "]"
		case *ssa.Call:
			return "result#" + string(rune('0'+x.Index)) + " of " + c.callDesc(t)
		case *ssa.Next:
			if x.Index == 1 {
				return "range key"
			}
			return "range value"
		}
	case *ssa.TypeAssert:
		return sub(x.X) + ".(" + typeStr(x.AssertedType) + ")"
	case *ssa.Lookup:
		return sub(x.X) + "[" + sub(x.Index) + "]"
	case *ssa.Call:
		return "result of " + c.callDesc(x)
	case *ssa.Phi:
		return "phi " + typeStr(x.Type())
	case *ssa.MakeInterface:
		return sub(x.X)
	case *ssa.UnOp:
		return x.Op.String() + sub(x.X)
	}
	return typeStr(v.Type()) + " value"
}
