package main

import (
	"fmt"
	"time"

	"verifcheck/internal/core"
)

func main() {
	for i := 0; i < 3; i++ {
		t := time.Now()
		m, err := core.Load("/repo", nil)
		fmt.Println(time.Since(t), err, len(m.Funcs))
	}
}
