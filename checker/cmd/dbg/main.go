package main

import (
	"fmt"
	"verifcheck/internal/core"
	_ "golang.org/x/tools/go/ssa"
)

func main() {
	m, _ := core.Load("/repo", nil)
	fn := m.FuncByKey["schema.EnumSchema.ValidateCompatibility"]
	b := fn.Blocks[28]
	for _, cd := range core.CondsAt(b) {
		x, neq, ok := core.NilCmp(cd.V)
		fmt.Printf("%s = %s (%T) true=%v | %v %v %v\n", cd.V.Name(), cd.V.String(), cd.V, cd.True, x, neq, ok)
	}
}
