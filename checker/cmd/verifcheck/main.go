// verifcheck decides one property of /repo by static analysis of its current working tree.
package main

import (
	"flag"
	"fmt"
	"os"
	"path/filepath"
	"runtime/debug"
	"strconv"
	"time"

	"verifcheck/internal/core"
	"verifcheck/internal/rules"
)

func main() {
	prop := flag.String("property", "", "property id (C01..C19)")
	tier := flag.String("tier", "quick", "quick|thorough")
	repo := flag.String("repo", "/repo", "repository root")
	verif := flag.String("verif", "/verif", "verification root (evidence, known findings)")
	list := flag.Bool("list", false, "list registered properties")
	flag.Parse()
	if *list {
		for _, id := range rules.IDs() {
			fmt.Println(id)
		}
		return
	}
	if v := os.Getenv("VERIF_TIER"); v != "" && *tier == "" {
		*tier = v
	}
	spec := rules.Lookup(*prop)
	if spec == nil {
		fmt.Fprintf(os.Stderr, "unknown property %q\n", *prop)
		os.Exit(2)
	}
	seed := 0
	if s := os.Getenv("VERIF_SEED"); s != "" {
		seed, _ = strconv.Atoi(s)
	}
	start := time.Now()
	// an analysis that does not come to an end (a walk of the checker that cycles on a shape of code it has not met) must
	// not hang the check: it is an internal error of the checker, reported as such (undecided = fail)
	time.AfterFunc(20*time.Minute, func() {
		fmt.Printf("INTERNAL-ERROR property=%s: the analysis did not finish within 20 minutes (checker defect; nothing was decided)\n", *prop)
		os.Exit(2)
	})
	code := run(spec, *tier, *repo, *verif, seed, start)
	os.Exit(code)
}

func run(spec *rules.PropSpec, tier, repo, verif string, seed int, start time.Time) (code int) {
	defer func() {
		if r := recover(); r != nil {
			fmt.Fprintf(os.Stderr, "INTERNAL-ERROR property=%s analysis panic: %v\n%s\n", spec.ID, r, debug.Stack())
			code = 2
		}
	}()
	kf, err := core.LoadKnownFindings(filepath.Join(verif, "known_findings.json"))
	if err != nil {
		fmt.Fprintf(os.Stderr, "cannot read known_findings.json: %v\n", err)
		return 2
	}
	// build configurations: quick = the host, dependencies from export data; thorough = every target the SDK builds
	// for in this sandbox, the host one with all dependencies type-checked and SSA-built from source
	type config struct{ goos, goarch, load string }
	configs := []config{{"", "", os.Getenv("VERIF_LOAD")}}
	if tier == "thorough" {
		configs = []config{{"", "", "allsyntax"}, {"windows", "amd64", ""}, {"darwin", "arm64", ""}, {"linux", "arm64", ""}}
	}
	rep := core.NewReport(spec.ID)
	var names []string
	nPkgs, nFuncs, nGen := 0, 0, 0
	for _, cf := range configs {
		name := "host"
		if cf.goos != "" {
			name = cf.goos + "/" + cf.goarch
		}
		if cf.load != "" {
			name += "+" + cf.load
		}
		os.Setenv("VERIF_GOOS", cf.goos)
		os.Setenv("VERIF_GOARCH", cf.goarch)
		os.Setenv("VERIF_LOAD", cf.load)
		t0 := time.Now()
		m, err := core.Load(repo, nil)
		if err != nil && cf.load == "" {
			// export data unavailable? fall back to type-checking the dependencies from source
			os.Setenv("VERIF_LOAD", "allsyntax")
			name += "+allsyntax(fallback)"
			m, err = core.Load(repo, nil)
		}
		if os.Getenv("VERIF_TIMING") != "" {
			fmt.Fprintf(os.Stderr, "timing: load %s %.1fs\n", name, time.Since(t0).Seconds())
		}
		if err != nil {
			fmt.Fprintf(os.Stderr, "LOAD-FAILED property=%s config=%s %v\n", spec.ID, name, err)
			return 2
		}
		var gen *core.Module
		if spec.NeedsGen {
			gen, err = core.Load(filepath.Join(repo, "cmd", "arcaflow-codegen"), nil)
			if err != nil {
				fmt.Fprintf(os.Stderr, "LOAD-FAILED property=%s config=%s (codegen) %v\n", spec.ID, name, err)
				return 2
			}
		}
		one := core.NewReport(spec.ID)
		ctx := &rules.Ctx{M: m, Gen: gen, R: one, Tier: tier, Prop: spec.ID}
		for i, rule := range spec.Rules {
			t1 := time.Now()
			rule(ctx)
			if os.Getenv("VERIF_TIMING") != "" {
				fmt.Fprintf(os.Stderr, "timing: %s rule#%d %.1fs\n", name, i, time.Since(t1).Seconds())
			}
		}
		one.ApplyFloors()
		if len(configs) == 1 {
			rep = one
		} else {
			rep.Merge(one, name)
		}
		names = append(names, name)
		nPkgs, nFuncs = len(m.Pkgs), len(m.Funcs)
		if gen != nil {
			nGen = len(gen.Funcs)
		}
		m, gen, ctx = nil, nil, nil
		debug.FreeOSMemory()
	}
	extra := map[string]any{
		"packages_loaded":         nPkgs,
		"functions_analysed":      nFuncs,
		"configurations_analysed": names,
	}
	if nGen > 0 {
		extra["codegen_functions_analysed"] = nGen
	}
	return rep.Finish(verif, tier, seed, time.Since(start).Seconds(), spec.Explanation, spec.Assumptions, rules.TrustedBase(), kf, extra)
}
