// verifcheck decides one property of /repo by static analysis of its current working tree.
package main

import (
	"flag"
	"fmt"
	"os"
	"path/filepath"
	"runtime/debug"
	"strconv"
	"time"

	"verifcheck/internal/core"
	"verifcheck/internal/rules"
)

func main() {
	prop := flag.String("property", "", "property id (C01..C19)")
	tier := flag.String("tier", "quick", "quick|thorough")
	repo := flag.String("repo", "/repo", "repository root")
	verif := flag.String("verif", "/verif", "verification root (evidence, known findings)")
	list := flag.Bool("list", false, "list registered properties")
	flag.Parse()
	if *list {
		for _, id := range rules.IDs() {
			fmt.Println(id)
		}
		return
	}
	if v := os.Getenv("VERIF_TIER"); v != "" && *tier == "" {
		*tier = v
	}
	spec := rules.Lookup(*prop)
	if spec == nil {
		fmt.Fprintf(os.Stderr, "unknown property %q\n", *prop)
		os.Exit(2)
	}
	seed := 0
	if s := os.Getenv("VERIF_SEED"); s != "" {
		seed, _ = strconv.Atoi(s)
	}
	start := time.Now()
	code := run(spec, *tier, *repo, *verif, seed, start)
	os.Exit(code)
}

func run(spec *rules.PropSpec, tier, repo, verif string, seed int, start time.Time) (code int) {
	defer func() {
		if r := recover(); r != nil {
			fmt.Fprintf(os.Stderr, "INTERNAL-ERROR property=%s analysis panic: %v\n%s\n", spec.ID, r, debug.Stack())
			code = 2
		}
	}()
	m, err := core.Load(repo, nil)
	if err != nil && os.Getenv("VERIF_LOAD") == "" {
		// export data unavailable? fall back to type-checking the dependencies from source
		os.Setenv("VERIF_LOAD", "allsyntax")
		m, err = core.Load(repo, nil)
	}
	if os.Getenv("VERIF_TIMING") != "" {
		fmt.Fprintf(os.Stderr, "timing: load %.1fs\n", time.Since(start).Seconds())
	}
	if err != nil {
		fmt.Fprintf(os.Stderr, "LOAD-FAILED property=%s %v\n", spec.ID, err)
		return 2
	}
	var gen *core.Module
	if spec.NeedsGen {
		gen, err = core.Load(filepath.Join(repo, "cmd", "arcaflow-codegen"), nil)
		if err != nil {
			fmt.Fprintf(os.Stderr, "LOAD-FAILED property=%s (codegen) %v\n", spec.ID, err)
			return 2
		}
	}
	kf, err := core.LoadKnownFindings(filepath.Join(verif, "known_findings.json"))
	if err != nil {
		fmt.Fprintf(os.Stderr, "cannot read known_findings.json: %v\n", err)
		return 2
	}
	rep := core.NewReport(spec.ID)
	ctx := &rules.Ctx{M: m, Gen: gen, R: rep, Tier: tier, Prop: spec.ID}
	for i, rule := range spec.Rules {
		t0 := time.Now()
		rule(ctx)
		if os.Getenv("VERIF_TIMING") != "" {
			fmt.Fprintf(os.Stderr, "timing: rule#%d %.1fs\n", i, time.Since(t0).Seconds())
		}
	}
	extra := map[string]any{
		"packages_loaded":    len(m.Pkgs),
		"functions_analysed": len(m.Funcs),
	}
	if gen != nil {
		extra["codegen_functions_analysed"] = len(gen.Funcs)
	}
	return rep.Finish(verif, tier, seed, time.Since(start).Seconds(), spec.Explanation, spec.Assumptions, rules.TrustedBase(), kf, extra)
}
