#!/bin/sh
# usage: tools/matrix.sh [seed-id ...]   prints, for each seeded change, which property checks report a (new) violation.
# Applies each patch to /repo, runs all checks, always reverts. Results -> /verif/seeded/MATRIX.md
cd /repo || exit 2
if [ -n "$(git status --porcelain --untracked-files=no)" ]; then echo "repo dirty"; exit 2; fi
PROPS="C01 C02 C03 C04 C05 C06 C07 C08 C09 C10 C11 C12 C13 C14 C15 C16 C17 C18 C19"
SEEDS="$@"; [ -z "$SEEDS" ] && SEEDS=$(ls /verif/seeded | grep -v MATRIX)
OUT=/tmp/matrix.$$.md
echo "| seeded change | breaks | caught by (rule) | own property caught |" > $OUT
echo "|---|---|---|---|" >> $OUT
for s in $SEEDS; do
  P=/verif/seeded/$s/patch.diff
  own=${s%-*}
  if ! git apply "$P" 2>/dev/null; then echo "| $s | $own | PATCH DOES NOT APPLY | - |" >> $OUT; continue; fi
  hits=""; ownhit=no
  for p in $PROPS; do
    out=$(/verif/run.sh $p quick 2>&1)
    if echo "$out" | grep -q '^VIOLATION'; then
      rules=$(echo "$out" | grep '^  violation' | sed 's/.*rule=\([A-Z-]*\).*/\1/' | sort -u | tr '\n' ',' | sed 's/,$//')
      hits="$hits $p($rules)"
      [ "$p" = "$own" ] && ownhit=yes
    fi
  done
  git checkout -- .
  [ -z "$hits" ] && hits="MISSED"
  echo "| $s | $own | $hits | $ownhit |" >> $OUT
  echo "$s: $hits"
done
mv $OUT ${MATRIX_OUT:-/verif/seeded/MATRIX.md}
