#!/bin/sh
# usage: tools/recheck_seed.sh <seed-id>   re-confirms a stored seed against /repo's HEAD in the scratch worktree /tmp/wt2/<ID>:
# applies, builds, vets, both suites pass, demo fails with the change and passes without it.
export GOFLAGS=-mod=mod GOPROXY=off GOSUMDB=off GOTOOLCHAIN=local; unset GOWORK
S=$1; ID=${S%-*}; WT=/tmp/wt2/$ID; D=/verif/seeded/$S
[ -d $WT ] || git -C /repo worktree add -q --detach $WT HEAD
git -C $WT checkout -q -- . ; git -C $WT clean -fdq; git -C $WT checkout -q --detach $(git -C /repo rev-parse HEAD)
git -C $WT apply $D/patch.diff || { echo "$S: REJECTED patch does not apply"; exit 1; }
(cd $WT && go build ./... && go vet ./... && go test -count=1 ./... >/dev/null 2>&1) || { echo "$S: REJECTED build/vet/suite"; git -C $WT checkout -q -- .; exit 1; }
(cd $WT/cmd/arcaflow-codegen && go vet ./... && go test -count=1 ./... >/dev/null 2>&1) || { echo "$S: REJECTED codegen suite"; git -C $WT checkout -q -- .; exit 1; }
T=$(mktemp -d); cp -r $D/demo/. $T/
find $T -name '*.go.txt' | while read f; do mv "$f" "${f%.txt}"; done
[ -f $T/go.mod.txt ] && sed "s#=> /repo#=> $WT#" $T/go.mod.txt > $T/go.mod && rm $T/go.mod.txt
find $T -name 'go.mod.txt' | while read f; do sed "s#=> /repo#=> $WT#" "$f" > "${f%.txt}"; rm "$f"; done
grep -rlE "/tmp/wt[0-9]*/$ID|/repo" $T 2>/dev/null | while read f; do sed -i -E "s#/tmp/wt[0-9]*/$ID#$WT#g; s#=> /repo#=> $WT#g" "$f"; done
find $T -name '*.sh' | while read f; do sed -i "s#REPO:-/repo#REPO:-$WT#g; s#/repo/#$WT/#g" "$f"; done
cp /repo/go.sum $T/ 2>/dev/null
CMD="go test -count=1 -timeout 300s ./..."
[ -f $T/run.sh ] && CMD="sh ./run.sh"
(cd $T && $CMD > $T/with.log 2>&1); RW=$?
git -C $WT checkout -q -- . ; rm -f $WT/cmd/arcaflow-codegen/codegen
(cd $T && $CMD > $T/without.log 2>&1); RO=$?
if grep -q FAIL $T/with.log && [ $RO -eq 0 ] && ! grep -q FAIL $T/without.log; then echo "$S: CONFIRMED"; rm -rf $T; exit 0; fi
echo "$S: REJECTED (with rc=$RW, without rc=$RO)"; tail -3 $T/with.log; tail -3 $T/without.log; rm -rf $T; exit 1
