#!/bin/sh
# usage: tools/allchecks.sh [tier] [snapshot dir]   runs all 19 checks on VERIF_REPO (default /repo), prints one line per
# property (exit status, obligations) and, with a snapshot dir, diffs the obligation keys+status against the snapshot
# written by an earlier run (tools/allchecks.sh quick /tmp/snap creates it when the directory does not exist).
T=${1:-quick}; S=$2
cd "$(dirname "$0")/.." || exit 2
mk=0; [ -n "$S" ] && [ ! -d "$S" ] && { mkdir -p "$S"; mk=1; }
for p in C01 C02 C03 C04 C05 C06 C07 C08 C09 C10 C11 C12 C13 C14 C15 C16 C17 C18 C19; do
  out=$(./run.sh $p $T 2>&1); st=$?
  echo "$p exit=$st $(echo "$out" | grep -c '^VIOLATION') violation lines, $(echo "$out" | grep -c '^KNOWN-FINDING') known"
  if [ -n "$S" ]; then
    python3 - "$p" "$S" "$mk" <<'PY'
import json,sys
p,S,mk=sys.argv[1:4]
o=json.load(open(f'evidence/{p}.obligations.json'))
cur=sorted(f"{x.get('key')} :: {x.get('status')}" for x in o)
f=f'{S}/{p}.keys'
if mk=='1':
    open(f,'w').write('\n'.join(cur)+'\n')
else:
    old=open(f).read().split('\n')[:-1]
    for k in sorted(set(old)-set(cur)): print('   -',k[:260])
    for k in sorted(set(cur)-set(old)): print('   +',k[:260])
PY
  fi
done
