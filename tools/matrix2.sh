#!/bin/sh
# usage: tools/matrix2.sh [seed-id ...]   like matrix.sh, but never touches /repo: each patch is applied in the scratch
# worktree /tmp/wt4/<ID> (checked out at /repo's HEAD) and the checks analyse that worktree (VERIF_REPO).
# Results -> ${MATRIX_OUT:-/verif/seeded/MATRIX.md}. Do not edit the checker while it runs (run.sh rebuilds on change).
SEEDS="$@"; [ -z "$SEEDS" ] && SEEDS=$(ls /verif/seeded | grep -v MATRIX)
OUT=/tmp/matrix2.$$.md
echo "| seeded change | breaks | caught by (rule) | own property caught |" > $OUT
echo "|---|---|---|---|" >> $OUT
for s in $SEEDS; do
  own=${s%-*}
  r=$(/verif/tools/try_seed.sh $s 2>&1 | tail -1)
  hits=${r#*: }
  ownhit=no; echo "$hits" | grep -q "$own(" && ownhit=yes
  echo "| $s | $own | $hits | $ownhit |" >> $OUT
  echo "$s: $hits"
done
mv $OUT ${MATRIX_OUT:-/verif/seeded/MATRIX.md}
