#!/bin/sh
# usage: tools/neutral_all.sh [outfile]   runs every behaviour-preserving patch of /verif/neutral against all 19 quick checks,
# one scratch worktree per area (/tmp/wt12/<AREA>, created at /repo's HEAD when missing), the areas in parallel.
# Every line that is not "quiet" is a false alarm to examine (or a patch that no longer applies).
OUT=${1:-/tmp/neutral_all.out}
cd "$(dirname "$0")/.." || exit 2
./run.sh C01 quick >/dev/null 2>&1   # builds the checker once, before the parallel runs
: > $OUT
for A in $(ls neutral/*.patch | sed 's#neutral/\([A-Z]*\)-N.*#\1#' | sort -u); do
  WT=/tmp/wt12/$A
  [ -d $WT ] || git -C /repo worktree add -q --detach $WT HEAD
  ( for p in $(ls /verif/neutral/$A-N*.patch | sort -V); do tools/try_neutral.sh $p $WT; done >> $OUT.$A 2>&1 ) &
done
wait
cat $OUT.* > $OUT; rm -f $OUT.*
sort -V $OUT
echo "$(grep -c quiet $OUT) quiet of $(wc -l < $OUT)"
