#!/bin/sh
# usage: tools/try_neutral.sh <patch file> <scratch worktree>   applies a behaviour-preserving patch in the scratch
# worktree (at /repo's HEAD), runs all 19 quick checks against it, reverts. Any VIOLATION is a false alarm to examine.
P=$1; WT=$2
git -C $WT checkout -q -- . ; git -C $WT checkout -q --detach $(git -C /repo rev-parse HEAD) 2>/dev/null
git -C $WT apply $P || { echo "$P: patch does not apply"; exit 2; }
hits=""
for p in C01 C02 C03 C04 C05 C06 C07 C08 C09 C10 C11 C12 C13 C14 C15 C16 C17 C18 C19; do
  out=$(VERIF_REPO=$WT /verif/run.sh $p quick 2>&1)
  if echo "$out" | grep -q '^VIOLATION'; then
    rules=$(echo "$out" | grep '^  violation' | sed 's/.*rule=\([A-Z-]*\).*/\1/' | sort -u | tr '\n' ',' | sed 's/,$//')
    hits="$hits $p($rules)"
  fi
done
git -C $WT checkout -q -- .
[ -z "$hits" ] && hits="quiet"
echo "$(basename $(dirname $P))/$(basename $P): $hits"
