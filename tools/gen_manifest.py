#!/usr/bin/env python3
"""Regenerates /verif/MANIFEST.json from the table below (claimed checks + not_applicable)."""
import json
ids=[json.loads(l)['id'] for l in open('/verif/properties.jsonl')]
TB="Trusted base: go/types + go/packages (Go 1.23.5), go/ssa of x/tools v0.29.0, the rule implementations in /verif/checker, and the small library-behaviour tables inside the rules. "
C={
"C04":("Structural necessary conditions of totality, decided over every function reachable from the data API outside recover scopes: unchecked type assertions, dereferences of optional pointers/interfaces, dereferences of map elements. A violated obligation is a concrete panic site; a clean run is NOT a proof of totality (other panic classes and termination are not covered).",
       TB+"Assumes well-formed schemas (A1-A4, DESIGN 3.0.5).","static analysis: SSA dynamic-type provenance + dominator-fact / must-non-nil dataflow over a repo-restricted CHA call graph","4 (C04), 3.1"),
"C05":("Guarded-by discipline for the shared encoders and the client's result/signal tables and running flag: every access holds the mutex on all paths (must-lockset dataflow with call-site inheritance and the spawn-and-join idiom). Decides the structural part of 'no interleaved writes, no cross-talk'; interleavings, chunking and payload fidelity are not decided.",
       TB+"Callers using the exported raw Encoder()/Decoder() accessors, and transport stalls beyond the 60 s send time-out, are outside the premise.","static analysis: lockset (guarded-by inference + must-held dataflow on SSA)","4 (C05), 3.4"),
"C06":("Atomic-set serialisability of the client's hand-over protocol: flag/table decisions and updates share a critical section, every read-loop exit has cleared the flag, result store => signal, wait guarded by its condition, entries removed only when complete, WaitGroup Add-before-go / Done-on-all-exits, cancel before wait, no blocking under the mutex. Necessary conditions for the absence of the lost-hand-over / lost-wake-up deadlocks; not a liveness proof.",
       TB+"Go's sync.Cond has no spurious wake-ups; the peer behaves correctly.","static analysis: critical-section (atomicity) analysis, must-pass dataflow, WaitGroup typestate on SSA","4 (C06), 3.4"),
"C07":("Server survival, structural part: no send can follow the close of the error channel, the report loop only ends on close, no non-blocking report, step code only below a recover scope, every step-runner path (incl. the panic path) emits exactly one terminal message, WaitGroup discipline of the server goroutines, unknown step/signal IDs never dereferenced. Five genuine defects of the channel protocol are recorded as known findings. Decoder behaviour on malformed bytes is not decided.",
       TB+"Go channel semantics.","static analysis: channel typestate across goroutine roots, exactly-one path counting, recover-scope reachability on SSA + call graph","4 (C07), 3.4"),
"C08":("Every decode failure of the client reaches the affected waiter(s) or the caller's return value; every decoded message is handed to a handler; every read-loop exit fails all waiters or finds none and clears the running flag atomically; Close cancels before waiting. One genuine defect (unknown message ID only logged) is a known finding. Which corruptions the decoder reports is not decided.",
       TB+"Every decode call may fail at any time (the property's fault model).","static analysis: error-delivery must-analysis on the CFG + critical-section analysis","4 (C08), 3.4"),
"C11":("Handler invoked at one site, outside loops, dominated by successful validation of the value it receives; step called with exactly the unserialized input; accepting returns follow the declared-output lookup and carry the output verdict; each failure class has its own error type; unknown IDs are never dereferenced; per-run step data inserted only on a miss, in the looking-up critical section, never removed. Handler behaviour is not decided.",
       TB+"A4: handlers and initializers are user callbacks.","static analysis: dominance / def-use checks on SSA, error-type provenance, critical-section analysis","4 (C11), 3.5-3.6"),
"C12":("Purity, structural part: every reachable write instruction is classified by an interprocedural origin (mod/ref) analysis - only writes to memory allocated during the call, or idempotent lazy cache fills, are accepted; every loop over a map has verdict-homogeneous early exits and sorts order-sensitive accumulations. Equality of repeated results as values is not decided.",
       TB+"One level of points-to for fresh containers; library effects from a table (an unclassified callee fails the check); user callbacks do not touch schema internals (A4).","static analysis: interprocedural effect summaries + map-iteration-order lint on SSA","4 (C12), 3.3"),
"C13":("No unsynchronised write to shared memory from concurrently callable API: the same origin analysis as C12 over a larger entry set; a write must go to call-local memory or happen under a mutex of the same receiver (lazy cache fills are not excused); plus lockset/atomicity of the step-data table. One genuine race (ObjectSchema.GetDefaults) is a known finding. Races inside third-party code are not decided.",
       TB+"The schema package uses no atomics/channels, so mutexes are the only synchronisation recognised; regexp.Regexp is documented concurrency-safe.","static analysis: interprocedural effect summaries intersected with must-held locksets","4 (C13), 3.3-3.4"),
}
NA_REASON="check not implemented yet (build in progress; see DESIGN.md section 7)"
def check(pid):
    text,note,tech,ref=C[pid]
    return {"property_id":pid,"quick_cmd":f"./run.sh {pid} quick","thorough_cmd":f"./run.sh {pid} thorough","evidence_file":f"/verif/evidence/{pid}.json",
            "replay_cmd_template":"./run.sh --explain {path}","engine":"verifcheck",
            "level_claimed":{"category":"other","text":text,"design_ref":"DESIGN.md section "+ref},"level_note":note,"technique":tech}
m={"version":1,"setup_cmd":"cd /verif && ./build.sh",
 "hooks":{"guard":"verif","enable":"none needed: the checker analyses /repo's source; no hook is compiled into the repository","baseline_off_cmd":"cd /repo && go test -count=1 ./... && cd cmd/arcaflow-codegen && go test -count=1 ./...","source_commits":[],"add_only":True},
 "engines":[{"name":"verifcheck","path":"checker/","serves_properties":sorted(C),"kind_free_text":"repository-specific static analyses (go/packages + go/ssa, x/tools v0.29.0): dataflow, lockset, typestate, effect and table-agreement rules"}],
 "checks":[check(p) for p in sorted(C)],
 "notes":"Static analysis only; every claim is level 'other' (structural necessary conditions, clause by clause; residue stated in each evidence file and DESIGN.md section 4). Genuine defects found: see known_findings.json (open findings + fix: commits).",
 "not_applicable":[{"property_id":i,"reason":NA_REASON} for i in ids if i not in C]}
json.dump(m,open('/verif/MANIFEST.json','w'),indent=1)
print("claimed",sorted(C))
