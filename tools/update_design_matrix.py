#!/usr/bin/env python3
"""Copies seeded/MATRIX.md into DESIGN.md between the MATRIX markers and appends the summary counts."""
import re
m=open('/verif/seeded/MATRIX.md').read().strip()
rows=[l for l in m.splitlines() if l.startswith('| C')]
total=len(rows); caught=sum(1 for r in rows if 'MISSED' not in r and 'does not apply' not in r); own=sum(1 for r in rows if r.rstrip().endswith('| yes |'))
summary=f"\n\n**{caught} of {total} stored changes are reported by some check, {own} by the check of the property they were written for.**"
p='/verif/DESIGN.md'
s=open(p).read()
i=s.index('<!-- MATRIX-BEGIN -->')+len('<!-- MATRIX-BEGIN -->')
j=s.index('<!-- MATRIX-END -->')
s=s[:i]+'\n'+m+summary+'\n'+s[j:]
open(p,'w').write(s)
print(total,caught,own)
