#!/bin/sh
# usage: try_patch.sh <patch> <reverse:0|1> <prop>...   : applies the patch to /repo, runs the checks, always reverts.
P="$1"; R="$2"; shift 2
cd /repo || exit 2
if [ -n "$(git status --porcelain --untracked-files=no)" ]; then echo "repo dirty"; exit 2; fi
if [ "$R" = 1 ]; then git apply -R "$P" || exit 2; else git apply "$P" || exit 2; fi
for p in "$@"; do
  out=$(/verif/run.sh "$p" quick 2>&1 | grep -v '^conda'); rc=$?
  echo "$out" | grep -E '^(VIOLATION|OK|LOAD-FAILED|INTERNAL)' | head -3
  echo "$out" | grep -E '^  violation' | head -${MAXV:-6}
done
git checkout -- . 
