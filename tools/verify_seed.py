#!/usr/bin/env python3
"""verify_seed.py <ID> <A|B|...|R> "<what it breaks / needs>"
Confirms a seeded change in its scratch worktree (/tmp/wt/<ID>): compiles, vets, passes both existing suites,
demonstration fails with it and passes without it. On success stores /verif/seeded/<ID>-<X>/{patch.diff,demo/,meta.json}."""
import json, os, shutil, subprocess, sys
ID, X = sys.argv[1], sys.argv[2]
needs = sys.argv[3] if len(sys.argv) > 3 else ""
R2 = X in ("C", "D")  # second seeding round uses its own worktrees and output directories
R4 = X in ("E", "F")  # fourth round (after the defect-hunting round)
R6 = X in ("G", "H")  # sixth round: the agents name their two changes E and F again; stored as G and H
R9 = X in ("K", "L")  # ninth round: E and F again; stored as K and L
R10 = X in ("M", "N", "O")  # tenth round: E and F again; stored as M and N
R11 = X in ("P", "Q", "R")  # eleventh round: E and F (and a bonus G) again; stored as P and Q (and R)
R12 = X in ("S", "T", "U")  # twelfth round: E, F (G) stored as S, T (U)
R13 = X in ("V", "W", "X")  # thirteenth round: E, F (G) stored as V, W (X)
R17 = X in ("CA", "CB")  # seventeenth round: one change (E) per property, stored as CA
R16 = X in ("BA", "BB")  # sixteenth round: E, F stored as BA, BB
R15 = X in ("AA", "AB", "AC")  # fifteenth round: E, F stored as AA, AB
R14 = X in ("Y", "Z")  # fourteenth round: E, F stored as Y, Z
R8 = X in ("I", "J")  # eighth round (after the round-7 hunt): E and F again; stored as I and J
SRC = {"G": "E", "H": "F", "I": "E", "J": "F", "K": "E", "L": "F", "M": "E", "N": "F", "O": "G", "P": "E", "Q": "F", "R": "G", "S": "E", "T": "F", "U": "G", "V": "E", "W": "F", "X": "G", "Y": "E", "Z": "F", "AA": "E", "AB": "F", "AC": "G", "BA": "E", "BB": "F", "CA": "E", "CB": "F"}.get(X, X)
wt = f"/tmp/wt29/{ID}" if R17 else f"/tmp/wt27/{ID}" if R16 else f"/tmp/wt25/{ID}" if R15 else f"/tmp/wt23/{ID}" if R14 else f"/tmp/wt20/{ID}" if R13 else f"/tmp/wt19/{ID}" if R12 else f"/tmp/wt17/{ID}" if R11 else f"/tmp/wt15/{ID}" if R10 else f"/tmp/wt11/{ID}" if R9 else f"/tmp/wt9/{ID}" if R8 else f"/tmp/wt6/{ID}" if R6 else f"/tmp/wt4/{ID}" if R4 else f"/tmp/wt2/{ID}" if R2 else f"/tmp/wt/{ID}"; sd = f"/tmp/seed17_{ID}" if R17 else f"/tmp/seed16_{ID}" if R16 else f"/tmp/seed15_{ID}" if R15 else f"/tmp/seed14_{ID}" if R14 else f"/tmp/seed13_{ID}" if R13 else f"/tmp/seed12_{ID}" if R12 else f"/tmp/seed11_{ID}" if R11 else f"/tmp/seed10_{ID}" if R10 else f"/tmp/seed9_{ID}" if R9 else f"/tmp/seed8_{ID}" if R8 else f"/tmp/seed6_{ID}" if R6 else f"/tmp/seed4_{ID}" if R4 else f"/tmp/seed2_{ID}" if R2 else f"/tmp/seed_{ID}"; patch = f"{sd}/{SRC}.patch"; demo = f"{sd}/demo{SRC}"
env = dict(os.environ, GOFLAGS="-mod=mod", GOPROXY="off", GOSUMDB="off", GOTOOLCHAIN="local")
env.pop("GOWORK", None)
log = []
def run(cmd, cwd, timeout=600):
    p = subprocess.run(cmd, cwd=cwd, env=env, shell=True, capture_output=True, text=True, timeout=timeout)
    out = (p.stdout + p.stderr)
    out = "\n".join(l for l in out.splitlines() if not l.startswith("conda"))
    log.append({"cmd": cmd, "cwd": cwd, "exit": p.returncode, "tail": out[-1500:]})
    return p.returncode, out
def fail(msg):
    print(f"SEED {ID}-{X}: REJECTED: {msg}")
    run("git checkout -- . ; rm -f cmd/arcaflow-codegen/codegen", wt)
    json.dump(log, open(f"{sd}/verify_{X}.log.json", "w"), indent=1)
    sys.exit(1)
run("git checkout -- . && git clean -fdq", wt)
rc, _ = run(f"git apply {patch}", wt)
if rc: fail("patch does not apply")
rc, o = run("go build ./... && go vet ./...", wt)
if rc: fail("build/vet fails: " + o[-300:])
rc, o = run("go test -count=1 ./...", wt)
if rc: fail("existing suite fails: " + o[-300:])
rc, o = run("go build -o /dev/null ./... && go vet ./... && go test -count=1 ./...", wt + "/cmd/arcaflow-codegen")
if rc: fail("codegen suite fails: " + o[-300:])
democmd = "go test -count=1 ./..."
if os.path.exists(demo + "/run_with_overlay.sh"):
    democmd = "go test -count=1 ./... ; ./run_with_overlay.sh"
if os.path.exists(demo + "/run.sh"):
    democmd = "sh ./run.sh"
rc_with, o_with = run("go vet ./... ; " + democmd, demo, 900)
run("git checkout -- . ; rm -f cmd/arcaflow-codegen/codegen", wt)
rc_without, o_without = run(democmd, demo, 900)
if "FAIL" not in o_with: fail("demo does not fail with the change")
if rc_without != 0 or "FAIL" in o_without: fail("demo does not pass without the change: " + o_without[-300:])
dst = f"/verif/seeded/{ID}-{X}"
shutil.rmtree(dst, ignore_errors=True); os.makedirs(dst)
shutil.copy(patch, dst + "/patch.diff")
shutil.copytree(demo, dst + "/demo")
gm = dst + "/demo/go.mod"
if os.path.exists(gm):
    s = open(gm).read().replace(wt, "/repo")
    open(gm, "w").write(s)
    os.rename(gm, gm + ".txt")  # keep go tooling from treating /verif/seeded as modules
for root, _, files in os.walk(dst + "/demo"):
    for f in files:
        if f.endswith(".go"):
            os.rename(os.path.join(root, f), os.path.join(root, f + ".txt"))
        if f == "go.sum":
            os.remove(os.path.join(root, f))
meta = {"id": f"{ID}-{X}", "property": ID, "source": "independent sub-agent (given only the property text and a scratch worktree)",
        "breaks_and_needs": needs,
        "confirmed": {"applies": True, "build_vet": "ok", "existing_suites": "pass (root module and cmd/arcaflow-codegen)",
                      "demo_with_change": "FAIL", "demo_without_change": "PASS"},
        "how_to_rerun": "copy demo/ to a scratch dir, rename *.go.txt -> *.go and go.mod.txt -> go.mod (replace => worktree with patch applied), cp /repo/go.sum ., go test ./...",
        "ran": [{"cmd": l["cmd"], "cwd": l["cwd"], "exit": l["exit"]} for l in log],
        "demo_fail_excerpt": "\n".join(l for l in o_with.splitlines() if "FAIL" in l or "demo_test" in l or "_test.go" in l)[:1500]}
json.dump(meta, open(dst + "/meta.json", "w"), indent=1)
print(f"SEED {ID}-{X}: CONFIRMED -> {dst}")
