#!/bin/sh
# usage: tools/try_seed_wt.sh <worktree-root> <seed-id> [prop ...]   like try_seed.sh, with the scratch worktrees under
# <worktree-root>/<ID> (so that it can run next to a matrix that is using /tmp/wt4).
ROOT=$1; shift
S=$1; shift; ID=${S%-*}; WT=$ROOT/$ID
PROPS="$@"; [ -z "$PROPS" ] && PROPS="C01 C02 C03 C04 C05 C06 C07 C08 C09 C10 C11 C12 C13 C14 C15 C16 C17 C18 C19"
git -C $WT checkout -q -- . ; git -C $WT checkout -q --detach $(git -C /repo rev-parse HEAD) 2>/dev/null
git -C $WT apply /verif/seeded/$S/patch.diff || { echo "$S: patch does not apply"; exit 2; }
hits=""
for p in $PROPS; do
  out=$(VERIF_REPO=$WT /verif/run.sh $p quick 2>&1)
  if echo "$out" | grep -q '^VIOLATION'; then
    rules=$(echo "$out" | grep '^  violation' | sed 's/.*rule=\([A-Z-]*\).*/\1/' | sort -u | tr '\n' ',' | sed 's/,$//')
    hits="$hits $p($rules)"
    [ -n "$VERBOSE" ] && echo "$out" | grep '^  violation' | head -4 | cut -c1-260
  fi
done
git -C $WT checkout -q -- . ; rm -f $WT/cmd/arcaflow-codegen/codegen
[ -z "$hits" ] && hits="MISSED"
echo "$S: $hits"
