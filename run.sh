#!/bin/sh
# usage: ./run.sh <property-id> [quick|thorough]
# Rebuilds the checker if its sources are newer than the binary, then analyses /repo's current working tree.
cd "$(dirname "$0")" || exit 2
export GOFLAGS=-mod=mod GOPROXY=off GOSUMDB=off GOTOOLCHAIN=local
unset GOWORK
if [ ! -x bin/verifcheck ] || [ -n "$(find checker -name '*.go' -newer bin/verifcheck 2>/dev/null | head -1)" ]; then
  ./build.sh || { echo "BUILD-FAILED"; exit 2; }
fi
exec bin/verifcheck -property "$1" -tier "${2:-${VERIF_TIER:-quick}}" -repo "${VERIF_REPO:-/repo}" -verif "$(pwd)"
