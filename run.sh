#!/bin/sh
# usage: ./run.sh <property-id> [quick|thorough]
#        ./run.sh --explain <evidence/Cxx.violations.json>   re-runs the property's rules and prints the recorded violations
# Rebuilds the checker if its sources are newer than the binary, then analyses /repo's current working tree.
cd "$(dirname "$0")" || exit 2
export GOFLAGS=-mod=mod GOPROXY=off GOSUMDB=off GOTOOLCHAIN=local
unset GOWORK
if [ ! -x bin/verifcheck ] || [ -n "$(find checker -name '*.go' -newer bin/verifcheck 2>/dev/null | head -1)" ]; then
  ./build.sh || { echo "BUILD-FAILED"; exit 2; }
fi
if [ -n "$VERIF_REPO" ] && [ "$VERIF_REPO" != "/repo" ] && [ -z "$VERIF_EVIDENCE_DIR" ]; then
  # a variant tree (seeded change, neutral refactoring): /verif/evidence describes /repo only
  VERIF_EVIDENCE_DIR="/tmp/verif_variant_evidence$(echo "$VERIF_REPO" | tr '/' '_')"; export VERIF_EVIDENCE_DIR
fi
if [ "$1" = "--explain" ]; then
  f="$2"; id=$(basename "$f" | cut -d. -f1)
  [ -f "$f" ] && cat "$f"
  exec bin/verifcheck -property "$id" -tier quick -repo "${VERIF_REPO:-/repo}" -verif "$(pwd)"
fi
exec bin/verifcheck -property "$1" -tier "${2:-${VERIF_TIER:-quick}}" -repo "${VERIF_REPO:-/repo}" -verif "$(pwd)"
